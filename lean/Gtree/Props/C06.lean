import Gtree.Lemmas.EntryFacts
import Gtree.Lemmas.HeapCompose
import Gtree.Lemmas.HeapMkdir
import Gtree.Lemmas.SourceRefines
import Gtree.Model.Api
import Gtree.Lemmas.MkdirExact
import Gtree.Model.MkOps
import Gtree.Lemmas.MkInterleave
import Gtree.Lemmas.TreeFacts
/-
  C06 — mkdir over the finite-map file system model. Proved:
   * if any root "exists" (Stat gives anything but does-not-exist) the call fails with the path-exists
     error and the file system is unchanged;
   * a refused file-system operation is returned as an error, never reported as success;
   * nothing that existed before is changed: MkdirAll only appends directory entries, Create only
     touches its own path – so every entry other than the file paths being created keeps its kind.
   * EXACTNESS (`C06_exact`): for a forest with distinct sibling names whose names are single path
     elements the OS accepts, created below a target none of whose prefixes is a regular file, in a
     file system where every existing path has its ancestors and none of the roots exists: the call
     succeeds, every node path then exists with the right kind (empty regular file for a childless
     node whose name ends with a configured extension, directory otherwise), the missing prefixes of
     the target have become directories, and `lookup` of every other path is what it was.
-/
namespace Gtree

/-- any root already there ⇒ ErrExistPath and an unchanged file system -/
theorem C06_exists_unchanged (fs : FS) (target : Bytes) (exts : List Bytes) (roots : List (List Visit))
    (h : anyRootExists fs target roots = true) :
    mkdirRoots fs target exts roots = (fs, some .exist) := by
  simp [mkdirRoots, h]

theorem lookup_append_some (fs : FS) (e : Bytes × Kind) (p : Bytes) (k : Kind) (h : fs.lookup p = some k) :
    FS.lookup (fs ++ [e]) p = some k := by
  unfold FS.lookup at h ⊢
  rw [List.find?_append]
  cases hf : fs.find? (fun e => e.1 == p) with
  | none => simp [hf] at h
  | some x => simpa [hf] using h

/-- MkdirAll never changes an existing entry -/
theorem mkdirAll_preserves (fs : FS) (q p : Bytes) (k : Kind) (h : fs.lookup p = some k) :
    (fs.mkdirAll q).1.lookup p = some k := by
  unfold FS.mkdirAll
  split
  · exact h
  · have key : ∀ (l : List Bytes) (fs : FS), fs.lookup p = some k → (FS.mkdirAll.go fs l).1.lookup p = some k := by
      intro l
      induction l with
      | nil => intro fs h; simpa [FS.mkdirAll.go] using h
      | cons x xs ih =>
        intro fs h
        simp only [FS.mkdirAll.go]
        split
        · exact h
        · split
          · exact ih fs h
          · exact h
          · exact ih _ (lookup_append_some fs _ p k h)
    exact key _ fs h

/-- Create changes nothing but its own path -/
theorem create_preserves (fs : FS) (q p : Bytes) (k : Kind) (hne : p ≠ q) (h : fs.lookup p = some k) :
    (fs.create q).1.lookup p = some k := by
  simp only [FS.create]
  cases pathRefusal q with
  | some e => exact h
  | none =>
    simp only
    cases (List.findSome? fs.parentProblem (prefixesOf q).dropLast) with
    | some e => exact h
    | none =>
      simp only
      cases hk : fs.kindOf q with
      | none => exact lookup_append_some fs _ p k h
      | some kd =>
        cases kd with
        | dir => exact h
        | file n =>
          -- existing file: only the entry of q is replaced
          simp only
          unfold FS.lookup at h ⊢
          rw [List.find?_map]
          cases hf : fs.find? (fun e => e.1 == p) with
          | none => simp [hf] at h
          | some x =>
            have hx : (x.1 == p) = true := by
              have := List.find?_some hf
              simpa using this
            have hxp : x.1 = p := by simpa using hx
            have hxq : (x.1 == q) = false := by rw [hxp]; simpa using hne
            have hcomp : ((fun e : Bytes × Kind => e.1 == p) ∘ fun e => if (e.1 == q) = true then (q, Kind.file 0) else e)
                = (fun e => e.1 == p) := by
              funext e
              simp only [Function.comp]
              by_cases heq : (e.1 == q) = true
              · have : e.1 = q := by simpa using heq
                simp [heq, this, Ne.symm hne]
              · simp [heq]
            rw [hcomp, hf]
            simp only [Option.map_some, hxq, Bool.false_eq_true, if_false]
            simpa [hf] using h

/-- creating the nodes of one root changes no entry other than the file paths it creates -/
theorem C06_preserves_existing (target : Bytes) (exts : List Bytes) :
    ∀ (vs : List Visit) (fs : FS) (p : Bytes) (k : Kind), fs.lookup p = some k →
      (∀ v ∈ vs, isFileNode exts v.name v.hasChild = true → p ≠ filepathJoin [target, v.path]) →
      (mkNodes target exts fs vs).1.lookup p = some k
  | [], fs, p, k, h, _ => by simpa [mkNodes] using h
  | v :: vs, fs, p, k, h, hne => by
    have ih := C06_preserves_existing target exts vs
    have hne' : ∀ w ∈ vs, isFileNode exts w.name w.hasChild = true → p ≠ filepathJoin [target, w.path] :=
      fun w hw => hne w (by simp [hw])
    simp only [mkNodes]
    split
    · rename_i hfile
      have h1 := mkdirAll_preserves fs (filepathJoin [target, trimSuffix v.path v.name]) p k h
      cases hm : fs.mkdirAll (filepathJoin [target, trimSuffix v.path v.name]) with
      | mk fs1 e1 =>
        rw [hm] at h1
        cases e1 with
        | some e => exact h1
        | none =>
          simp only
          have h2 := create_preserves fs1 (filepathJoin [target, v.path]) p k (hne v (by simp) hfile) h1
          cases hc : fs1.create (filepathJoin [target, v.path]) with
          | mk fs2 e2 =>
            rw [hc] at h2
            cases e2 with
            | some e => exact h2
            | none => exact ih fs2 p k h2 hne'
    · split
      · have h1 := mkdirAll_preserves fs (filepathJoin [target, v.path]) p k h
        cases hm : fs.mkdirAll (filepathJoin [target, v.path]) with
        | mk fs1 e1 =>
          rw [hm] at h1
          cases e1 with
          | some e => exact h1
          | none => exact ih fs1 p k h1 hne'
      · exact ih fs p k h hne'

/-- a refused operation surfaces: success of the whole call means no operation was refused -/
theorem C06_failure_reported (fs fs' : FS) (target : Bytes) (exts : List Bytes) (vs : List Visit) (e : FErr)
    (h : mkNodes target exts fs vs = (fs', some e)) :
    (mkdirRoots fs target exts [vs]).2 ≠ none := by
  unfold mkdirRoots
  split
  · simp
  · simp [mkdirRoots.go, h]

/-- EXACTNESS of a successful Mkdir. -/
theorem C06_exact (f : Fmt) (exts : List Bytes) (ts : List Bytes) (roots : List T) (fs : FS)
    (hts : GoodList ts) (hg : AllGoodL roots) (hd : DistinctL roots) (hc : fs.Closed)
    (hnf : ∀ i < ts.length, notFile fs (key (ts.take (i + 1))))
    (hnone : anyRootExists fs (key ts) (roots.map (growRoot f)) = false) :
    (mkdirRoots fs (key ts) exts (roots.map (growRoot f))).2 = none ∧
    Exact exts ts roots fs (mkdirRoots fs (key ts) exts (roots.map (growRoot f))).1 :=
  mkdirRoots_exact f exts ts roots fs hts hg hd hc hnf hnone

/-- the hypotheses of `C06_exact` are satisfiable: root `a` holding `x` into target `t`, on the empty file system -/
example : ∃ (ts : List Bytes) (roots : List T) (fs : FS), GoodList ts ∧ AllGoodL roots ∧ DistinctL roots ∧ fs.Closed ∧
    (∀ i < ts.length, notFile fs (key (ts.take (i + 1)))) ∧
    anyRootExists fs (key ts) (roots.map (growRoot Fmt.default)) = false ∧ roots ≠ [] := by
  refine ⟨[[116]], [T.mk [97] [T.mk [120] []]], [], ?_, ?_, ?_, ?_, ?_, ?_, by simp⟩
  · refine ⟨by simp, ?_⟩
    intro e he
    simp only [List.mem_singleton] at he
    subst he
    exact ⟨⟨by decide, by decide, by decide, by decide⟩, by decide, by decide⟩
  · simp only [AllGoodL, AllGoodT, and_true]
    exact ⟨⟨⟨by decide, by decide, by decide, by decide⟩, by decide, by decide⟩,
      ⟨⟨by decide, by decide, by decide, by decide⟩, by decide, by decide⟩⟩
  · simp [DistinctL, DistinctT]
  · intro es _ h; exact absurd rfl h
  · intro i _ n; simp [FS.lookup]
  · decide

end Gtree

namespace Gtree
/-- Tie to the source: which nodes are regular files is decided by `fileConsiderer.isFile` (file_considerer.go,
    translated on this run), which is the model's `isFileNode`: no children, and the name ends with a configured
    extension. -/
theorem C06_is_file_is_the_source (exts : List Bytes) (h : Nat) (n : Bytes) (ks : List T) :
    Src.fileConsiderer.isFile ⟨exts⟩ (toNode h (.mk n ks)) = isFileNode exts n (!ks.isEmpty) :=
  isFile_src exts h n ks
end Gtree

namespace Gtree
/-- **"Nothing that existed before has changed" in the massive mode, for every schedule**: whatever sequence of
    `MkdirAll` / `Create` operations reaches the file system — any roots, any interleaving, repetition or cut-off,
    failing operations included — an entry that existed keeps its kind, unless one of the operations is the
    `Create` of exactly that path (which a Mkdir into a target where none of the roots existed never issues for an
    existing entry, `C06_exact`). -/
theorem C06_preserves_existing_massive : ∀ (ops : List FsOp) (fs : FS) (p : Bytes) (k : Kind), fs.lookup p = some k →
    (∀ q, FsOp.create q ∈ ops → p ≠ q) → (applyAll fs ops).lookup p = some k
  | [], fs, p, k, h, _ => h
  | op :: ops, fs, p, k, h, hne => by
    simp only [applyAll, List.foldl_cons]
    have ih := C06_preserves_existing_massive ops (fs.applyOp op).1 p k
    simp only [applyAll] at ih
    apply ih
    · cases op with
      | mkdirAll q => exact mkdirAll_preserves fs q p k h
      | create q => exact create_preserves fs q p k (hne q (by simp)) h
    · intro q hq
      exact hne q (by simp [hq])
end Gtree

namespace Gtree
/-- **EXACTNESS of a successful Mkdir in the massive mode, for every schedule**: under the hypotheses of `C06_exact`,
    after ANY interleaving of the roots' file-system operations every operation has succeeded, every node path
    exists with the right kind, the missing prefixes of the target have become directories, and `lookup` of every
    other path is what it was. -/
theorem C06_exact_massive (f : Fmt) (exts : List Bytes) (ts : List Bytes) (roots : List T) (fs : FS)
    (hts : GoodList ts) (hg : AllGoodL roots) (hd : DistinctL roots) (hc : fs.Closed)
    (hnf : ∀ i < ts.length, notFile fs (key (ts.take (i + 1))))
    (hnone : anyRootExists fs (key ts) (roots.map (growRoot f)) = false)
    (r : List EOp) (hint : Interleave (roots.map (fun t => opsTree exts ts t)) r) :
    ∃ s, runE fs r = (s, none) ∧ Exact exts ts roots fs s := by
  have habs := nodes_absent f exts ts roots fs hts hg hc hnone
  obtain ⟨s, hrun, hsame⟩ := interleave_same exts ts roots fs hts hg hd hnf habs r hint
  obtain ⟨_, hex⟩ := mkKids_exact exts roots ts fs hts hg hd hnf habs
  refine ⟨s, hrun, ⟨?_, ?_, ?_, ?_⟩⟩
  · intro e he; rw [hsame]; exact hex.nodes e he
  · intro i hi k hk; rw [hsame]; exact hex.keep i hi k hk
  · intro hne i hi hn; rw [hsame]; exact hex.make hne i hi hn
  · intro p h1 h2; rw [hsame]; exact hex.frame p h1 h2
end Gtree

namespace Gtree
/-- Fact regenerated from the sources on this run: every Mkdir entry point, under both of its names, builds its configuration with `newConfigWithoutEncode`: an encoding option in the list changes nothing about what is created. -/
theorem C06_facts_entry_points_configuration : Facts.entryConfig = expectedEntryConfig := entryConfig_as_expected

/-- Fact regenerated from the sources on this run: every deprecated alias (`Output`, `Mkdir`, `Verify`, `Walk`,
    `OutputProgrammably`, `MkdirProgrammably`, `VerifyProgrammably`, `WalkProgrammably`, `WalkIterProgrammably`) has, word for
    word, the body of the function that replaces it. -/
theorem C06_facts_aliases_identical : Facts.aliasBodiesEqual.all (fun e => e.2) = true := aliases_identical
end Gtree

namespace Gtree
/-- Tie to the source, pointer code and operating-system calls included (heap mode of /verif/translate,
    `Generated/SourceHeap.lean`, regenerated on every run): the MKDIRER of simple_tree_mkdirer.go — `mkdir`,
    `isExistRoot`, the recursion `makeDirectoriesAndFiles`, `mkdirAll`, `mkfile` — with `fileConsiderer.isFile`,
    translated statement by statement over an explicit heap and the file-system model (`os.Stat`, `os.MkdirAll`,
    `os.Create` are the model's operations).  For every heap that holds a forest, every file system, target,
    extension list, and every fuel above the forest's size, the translated `mkdir` is the model's `mkdirRoots` on
    what is read from the nodes: nothing is touched and `ErrExistPath` is returned when some root exists already
    (any outcome of Stat other than "does not exist"); otherwise for every node in pre-order a childless node whose
    name ends with an extension gets `MkdirAll(parent)` then `Create`, any other childless node `MkdirAll`, a node
    with children nothing itself; the first refusal ends the run and is returned.  The theorems about `mkNodes` /
    `mkdirRoots` (exactness, confinement, preservation) are therefore theorems about this code. -/
theorem C06_mkdirer_is_the_source (dm : SrcH.defaultMkdirerSimple) (h : SrcH.Heap) (ts : List T) (fs : FS)
    (rs : List Go.Ptr) (fuel : Nat) (hr : SrcH.ReprRoots h ts rs) (hf : sizeList ts ≤ fuel) :
    SrcH.defaultMkdirerSimple.mkdir fuel h fs dm rs =
      some ((mkdirRoots fs dm.targetDir dm.fileConsiderer.extensions (SrcH.rootVisits h ts rs)).1,
            SrcH.mkErrSrc (mkdirRoots fs dm.targetDir dm.fileConsiderer.extensions (SrcH.rootVisits h ts rs)).2) :=
  SrcH.mkdir_heap dm h ts fs rs fuel hr hf
end Gtree

namespace Gtree
/-- The translated pieces composed as `treeSimple.mkdir` composes them (grow with validation, then mkdir, on the same nodes;
    heap mode, regenerated on every run) ARE the model's `mkdirRootsApi` (real run): for every heap that holds a forest
    (all pointers different), every file system, target, extension list and every fuel above `2·size + 1` — an invalid
    name anywhere in the forest is returned by the grower (so the mkdirer is not reached and nothing is created);
    otherwise the mkdirer performs the model's `mkdirRoots` on the model's `growRoot` visits of every root.  The
    exactness, confinement and dry-run theorems about `mkdirRootsApi` are theorems about this composition; what is
    hand-written in between is the three-line body of `treeSimple.mkdir` (generate, grow, mkdir with early returns). -/
theorem C06_mkdir_path_is_the_model (dg : SrcH.defaultGrowerSimple) (dm : SrcH.defaultMkdirerSimple) (ts : List T) (h : SrcH.Heap) (fs : FS)
    (rs : List Go.Ptr) (fuel : Nat) (hv : dg.enabledValidation = true)
    (hr : SrcH.ReprRoots h ts rs) (hnd : (SrcH.ptrsKids h ts rs).Nodup) (hf : 2 * sizeList ts + 1 ≤ fuel) :
    ∃ h', SrcH.defaultGrowerSimple.grow fuel h dg rs =
        some (h', (validateVisits (ts.map (growRoot (SrcH.fmtOf dg))).flatten).map verrSrc) ∧
      (validateVisits (ts.map (growRoot (SrcH.fmtOf dg))).flatten = none →
        SrcH.defaultMkdirerSimple.mkdir fuel h' fs dm rs =
          some ((mkdirRoots fs dm.targetDir dm.fileConsiderer.extensions (ts.map (growRoot (SrcH.fmtOf dg)))).1,
                SrcH.mkErrSrc (mkdirRoots fs dm.targetDir dm.fileConsiderer.extensions (ts.map (growRoot (SrcH.fmtOf dg)))).2)) :=
  SrcH.grow_then_mkdir dg dm ts h fs rs fuel hv hr hnd hf
end Gtree

namespace Gtree

/-- **C06 (facts: composition).**  Both Mkdir operations of the simple tree enable validation, grow, and then either
    print (dry run) or call the mkdirer — the composition `mkdir_path_is_the_model` is stated for — and the mkdirer is
    the `defaultMkdirerSimple` built from the configured target directory and file extensions. -/
theorem C06_facts_mkdir_grows_then_creates :
    lookupL "mkdir" Facts.treeSimpleCalls = ["grower.enableValidation", "grower.grow", "spreader.spread", "mkdirer.mkdir"] ∧
    lookupL "mkdirProgrammably" Facts.treeSimpleCalls = ["grower.enableValidation", "grower.grow", "spreader.spread", "mkdirer.mkdir"] ∧
    lookupL "mkdirer" Facts.treeSimpleFields = ["mkdirerFactory", "cfg.targetDir", "cfg.fileExtensions"] ∧
    lookupL "mkdirerFactory" Facts.factoryCtors = ["newMkdirerSimple"] ∧
    lookupL "newMkdirerSimple" Facts.ctorReturns = ["defaultMkdirerSimple"] := by decide

end Gtree
