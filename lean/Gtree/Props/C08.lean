import Gtree.Lemmas.SourceRefines
import Gtree.Lemmas.HeapVerify
import Gtree.Model.Api
import Gtree.Lemmas.MkdirVerify
import Gtree.Lemmas.MkInterleave
import Gtree.Lemmas.VerifyExt
import Gtree.Lemmas.TreeFacts
/-
  C08 — verify reports exactly the differences (over the finite-map file system model).
  `verifyRootsApi` returns only an `Option Err`: it has no file-system result, i.e. it cannot change
  the file system (read-only by type). Proved: the verdict is nil iff no root has a difference (a
  missing path, or – strict only – an extra entry); the error is that of the first root that
  differs; for a root directory that exists, the listed paths are exactly the node paths that are
  absent / the present entries that are not node paths; and a forest just created by Mkdir (any
  extension list) verifies, strictly too, against the file system Mkdir produced
  (`C08_mkdir_then_verify`, for forests of good names with distinct sibling names, see Props/C06).
-/
namespace Gtree

/-- a root is clean: it verifies with nothing missing and (strict only) nothing extra -/
def rootClean (fs : FS) (target : Bytes) (strict : Bool) (vs : List Visit) : Prop :=
  ∃ d, verifyRoot fs target vs = .ok d ∧ d.missing = [] ∧ (strict = true → d.extra = [])

/-- nil iff every root is clean -/
theorem C08_nil_iff (fs : FS) (target : Bytes) (strict : Bool) (roots : List (List Visit)) :
    verifyRoots fs target strict roots = none ↔ ∀ vs ∈ roots, rootClean fs target strict vs := by
  induction roots with
  | nil => simp [verifyRoots]
  | cons vs rest ih =>
    simp only [verifyRoots, List.mem_cons, forall_eq_or_imp]
    cases hv : verifyRoot fs target vs with
    | error e =>
      simp only [rootClean, hv]
      constructor
      · intro h; simp at h
      · intro h; obtain ⟨⟨d, hd, _⟩, _⟩ := h; simp at hd
    | ok d =>
      simp only
      by_cases hbad : ((strict && !d.extra.isEmpty) || !d.missing.isEmpty) = true
      · simp only [hbad, if_true]
        constructor
        · intro h; simp at h
        · intro h
          obtain ⟨⟨d', hd', hm, he⟩, _⟩ := h
          rw [hv] at hd'
          simp only [Except.ok.injEq] at hd'
          subst hd'
          cases strict <;> simp_all
      · simp only [hbad, Bool.false_eq_true, if_false, ih]
        constructor
        · intro h
          refine ⟨⟨d, hv, ?_, ?_⟩, h⟩
          · cases hm : d.missing <;> simp_all
          · intro hs; cases he : d.extra <;> simp_all
        · intro h; exact h.2

/-- the error reported is the difference of the first root that is not clean -/
theorem C08_first_differing_root (fs : FS) (target : Bytes) (strict : Bool) :
    ∀ (roots : List (List Visit)) (st : Bool) (d : VerifyDiff),
      verifyRoots fs target strict roots = some (.diff st d) →
      ∃ pre vs post, roots = pre ++ vs :: post ∧ (∀ u ∈ pre, rootClean fs target strict u) ∧
        verifyRoot fs target vs = .ok d ∧ st = strict
  | [], st, d, h => by simp [verifyRoots] at h
  | vs :: rest, st, d, h => by
    simp only [verifyRoots] at h
    cases hv : verifyRoot fs target vs with
    | error e => simp [hv] at h
    | ok d0 =>
      simp only [hv] at h
      by_cases hbad : ((strict && !d0.extra.isEmpty) || !d0.missing.isEmpty) = true
      · simp only [hbad, if_true, Option.some.injEq, VfErr.diff.injEq] at h
        obtain ⟨rfl, rfl⟩ := h
        exact ⟨[], vs, rest, rfl, by simp, hv, rfl⟩
      · simp only [hbad, Bool.false_eq_true, if_false] at h
        obtain ⟨pre, vs', post, hr, hpre, hvs, hst⟩ := C08_first_differing_root fs target strict rest st d h
        refine ⟨vs :: pre, vs', post, by simp [hr], ?_, hvs, hst⟩
        intro u hu
        rcases List.mem_cons.mp hu with rfl | hu
        · refine ⟨d0, hv, ?_, ?_⟩
          · cases hm : d0.missing <;> simp_all
          · intro hs; cases he : d0.extra <;> simp_all
        · exact hpre u hu

/-- for a root directory that exists: the missing list is exactly the node paths that are absent … -/
theorem C08_missing_exact (fs : FS) (target : Bytes) (r : Visit) (vs : List Visit)
    (hdir : fs.stat (filepathJoin [target, r.path]) = .ok .dir) (d : VerifyDiff)
    (h : verifyRoot fs target (r :: vs) = .ok d) (p : Bytes) :
    p ∈ d.missing ↔
      (p ∈ (r :: vs).map (fun v => filepathJoin [target, v.path]) ∧
       p ∉ filepathJoin [target, r.path] :: fs.under (filepathJoin [target, r.path])) := by
  simp only [verifyRoot, List.head?_cons, hdir, Except.ok.injEq] at h
  subst h
  simp only [List.mem_filter, List.contains_eq_mem, Bool.not_eq_eq_eq_not, Bool.not_true,
    decide_eq_false_iff_not, List.map_cons]

/-- … and (strict) the extra list is exactly the present entries that are not node paths -/
theorem C08_extra_exact (fs : FS) (target : Bytes) (r : Visit) (vs : List Visit)
    (hdir : fs.stat (filepathJoin [target, r.path]) = .ok .dir) (d : VerifyDiff)
    (h : verifyRoot fs target (r :: vs) = .ok d) (p : Bytes) :
    p ∈ d.extra ↔
      (p ∈ filepathJoin [target, r.path] :: fs.under (filepathJoin [target, r.path]) ∧
       p ∉ (r :: vs).map (fun v => filepathJoin [target, v.path])) := by
  simp only [verifyRoot, List.head?_cons, hdir, Except.ok.injEq] at h
  subst h
  simp only [List.mem_filter, List.contains_eq_mem, Bool.not_eq_eq_eq_not, Bool.not_true,
    decide_eq_false_iff_not, List.map_cons]

/-- a missing root directory: every node path is reported missing (after the D13 fix) -/
theorem C08_missing_root_lists_all (fs : FS) (target : Bytes) (r : Visit) (vs : List Visit)
    (hmiss : fs.stat (filepathJoin [target, r.path]) = .error .notExist) :
    verifyRoot fs target (r :: vs) = .ok ⟨[], (r :: vs).map (fun v => filepathJoin [target, v.path])⟩ := by
  simp [verifyRoot, hmiss]

/-- a forest just created by Mkdir, with any extension list, verifies – strictly as well -/
theorem C08_mkdir_then_verify (f : Fmt) (exts : List Bytes) (ts : List Bytes) (roots : List T) (fs : FS) (strict : Bool)
    (hts : GoodList ts) (hg : AllGoodL roots) (hd : DistinctL roots) (hc : fs.Closed) (hcanon : fs.Canon)
    (hnf : ∀ i < ts.length, notFile fs (key (ts.take (i + 1))))
    (hnone : anyRootExists fs (key ts) (roots.map (growRoot f)) = false) :
    verifyRoots (mkdirRoots fs (key ts) exts (roots.map (growRoot f))).1 (key ts) strict (roots.map (growRoot f)) = none := by
  rw [C08_nil_iff]
  intro vs hvs
  obtain ⟨t, ht, rfl⟩ := List.mem_map.mp hvs
  obtain ⟨d, hv, hm, he⟩ := mkdir_then_verify f exts ts roots fs strict hts hg hd hc hcanon hnf hnone t ht
  exact ⟨d, hv, hm, fun _ => he⟩

/-- its hypotheses are satisfiable (the empty file system is closed and canonical; see the example in Props/C06) -/
example : FS.Closed [] ∧ FS.Canon [] :=
  ⟨fun _ _ h => absurd rfl h, fun _ h => absurd rfl h⟩

end Gtree

namespace Gtree
/-- the verifier's verdict depends on the file system only through `lookup` -/
theorem C08_verdict_depends_on_lookup_only (a b : FS) (h : ∀ p, a.lookup p = b.lookup p) (target : Bytes) (strict : Bool)
    (roots : List (List Visit)) :
    verifyRoots a target strict roots = none ↔ verifyRoots b target strict roots = none :=
  verifyRoots_none_ext h target strict roots

/-- **"A tree just created by Mkdir with any extension list verifies strictly" — also when it was created in
    the massive mode, whatever the schedule**: after ANY interleaving of the roots' file-system operations the
    forest verifies, strictly as well, against the file system they left. -/
theorem C08_mkdir_then_verify_massive (f : Fmt) (exts : List Bytes) (ts : List Bytes) (roots : List T) (fs : FS) (strict : Bool)
    (hts : GoodList ts) (hg : AllGoodL roots) (hd : DistinctL roots) (hc : fs.Closed) (hcanon : fs.Canon)
    (hnf : ∀ i < ts.length, notFile fs (key (ts.take (i + 1))))
    (hnone : anyRootExists fs (key ts) (roots.map (growRoot f)) = false)
    (r : List EOp) (hint : Interleave (roots.map (fun t => opsTree exts ts t)) r) :
    ∃ s, runE fs r = (s, none) ∧ verifyRoots s (key ts) strict (roots.map (growRoot f)) = none := by
  have habs := nodes_absent f exts ts roots fs hts hg hc hnone
  obtain ⟨s, hrun, hsame⟩ := interleave_same exts ts roots fs hts hg hd hnf habs r hint
  refine ⟨s, hrun, ?_⟩
  have hseq := C08_mkdir_then_verify f exts ts roots fs strict hts hg hd hc hcanon hnf hnone
  have hF : ∀ p, s.lookup p = (mkdirRoots fs (key ts) exts (roots.map (growRoot f))).1.lookup p := by
    intro p
    rw [hsame p]
    simp only [mkdirRoots, hnone, Bool.false_eq_true, if_false]
    rw [mkdirRoots_go_forest f exts ts hts roots fs hg]
  exact (verifyRoots_none_ext hF (key ts) strict _).mpr hseq
end Gtree

namespace Gtree
/-- Tie to the source: the verdict on one root — fail iff a required path is missing or, strictly, an extra entry
    exists — is `defaultVerifierSimple.handleErr` (simple_tree_verifier.go, translated on this run; the massive
    verifier's workers call the same method). -/
theorem C08_verdict_is_the_source (strict : Bool) (dir : Bytes) (extra missing : List Bytes) :
    Src.defaultVerifierSimple.handleErr ⟨strict, dir⟩ extra missing =
      if (strict && !extra.isEmpty) || !missing.isEmpty then some (Src.Err.verifyError strict extra missing) else none :=
  verifier_handleErr_src strict dir extra missing
end Gtree

namespace Gtree
/-- Tie to the source, pointer code included (heap mode of /verif/translate, regenerated on every run): WHICH PATHS VERIFY
    REQUIRES.  `fillDirsMarkdown` of simple_tree_verifier.go — the recursion that fills the set `dirsMarkdown` before the
    directory is looked at — translated over an explicit heap (the `map[string]struct{}` as the list of its elements in
    insertion order).  For every heap that holds a tree, every target and every fuel above the tree's size it inserts,
    in pre-order, exactly the target joined with the path of every node: the model's `want` of `verifyRoot`
    (`SrcH.wantOf` is that expression), against which `C08_missing_exact` and `C08_extra_exact` are stated.  The
    directory walk itself (`fs.WalkDir` with its callback) stays hand-modelled; the verdict is `C08_verdict_is_the_source`. -/
theorem C08_required_paths_are_the_source (h : SrcH.Heap) (dv : SrcH.defaultVerifierSimple) (t : T) (p par : Nat)
    (lvl fuel : Nat) (dirs : List Bytes) (hr : SrcH.Repr h t p par lvl) (hf : t.size ≤ fuel) :
    SrcH.defaultVerifierSimple.fillDirsMarkdown fuel h dv p dirs =
      some (SrcH.insertAll dirs ((SrcH.readNode h t p lvl).map (fun v => filepathJoin [dv.targetDir, v.path])), none) :=
  SrcH.fill_node h dv t p par lvl fuel dirs hr hf
end Gtree

namespace Gtree

/-- **C08 (facts: composition).**  Both Verify operations of the simple tree enable validation, grow, and call the
    verifier, which is the `defaultVerifierSimple` built from the configured target directory and strictness. -/
theorem C08_facts_verify_grows_then_verifies :
    lookupL "verify" Facts.treeSimpleCalls = ["grower.enableValidation", "grower.grow", "verifier.verify"] ∧
    lookupL "verifyProgrammably" Facts.treeSimpleCalls = ["grower.enableValidation", "grower.grow", "verifier.verify"] ∧
    lookupL "verifier" Facts.treeSimpleFields = ["verifierFactory", "cfg.targetDir", "cfg.strictVerify"] ∧
    lookupL "verifierFactory" Facts.factoryCtors = ["newVerifierSimple"] ∧
    lookupL "newVerifierSimple" Facts.ctorReturns = ["defaultVerifierSimple"] := by decide

end Gtree
