import Gtree.Props.C01
