import Gtree.Lemmas.SourceConfig
import Gtree.Lemmas.HeapDry
import Gtree.Lemmas.SourceRefines
import Gtree.Lemmas.Validate
import Gtree.Lemmas.MkdirCounts
import Gtree.Lemmas.MkInterleave
import Gtree.Lemmas.TreeFacts
/-
  C09 — dry run touches nothing and predicts the real run (model of the repaired code).
-/
namespace Gtree

/-- no dry-run entry point changes the file system: `Output…(WithDryRun)` does not even take one
    (by type), and the Mkdir entry points return the one they were given -/
theorem C09_mkdir_dry_no_fs_effect (f : Fmt) (exts : List Bytes) (target : Bytes) (roots : List T) (fs : FS) :
    (mkdirRootsApi f exts target true roots fs).fs = fs := by
  cases hv : validateVisits (roots.map (growRoot f)).flatten <;> simp [mkdirRootsApi, hv]

theorem C09_mkdir_dry_no_fs_effect_md (f : Fmt) (exts : List Bytes) (target : Bytes) (inp : Input) (fs : FS) :
    (mkdirMd f exts target true inp fs).fs = fs := by
  cases hg : (generate inp).err with
  | some e => simp [mkdirMd, hg]
  | none => simp only [mkdirMd, hg]; exact C09_mkdir_dry_no_fs_effect f exts target _ fs

/-- the report of one root: the tree text of plain output, an LF, the two counts, an LF -/
theorem C09_report_shape (f : Fmt) (exts : List Bytes) (r : T) :
    dryRunReport f exts r =
      (textChunks f r).flatten ++ [lf] ++
        summaryBytes (countDirs exts (growRoot f r)) (countFiles exts (growRoot f r)) ++ [lf] := rfl

/-- every node is counted exactly once, as a directory or as a file -/
theorem C09_counts_partition (exts : List Bytes) (vs : List Visit) :
    countDirs exts vs + countFiles exts vs = vs.length := by
  induction vs with
  | nil => rfl
  | cons v vs ih =>
    simp only [countDirs, countFiles, List.filter_cons] at ih ⊢
    cases isFileNode exts v.name v.hasChild <;> simp <;> omega

/-- a node is counted as a file iff it is a leaf whose name ends with one of the extensions
    (the same predicate `mkNodes` uses to create a file rather than a directory) -/
theorem C09_file_iff (exts : List Bytes) (name : Bytes) (hasChild : Bool) :
    isFileNode exts name hasChild = true ↔ hasChild = false ∧ ∃ e ∈ exts, hasSuffix name e = true := by
  simp [isFileNode]

/-- dry run rejects a tree because of its names iff the real run does -/
theorem C09_reject_iff (f : Fmt) (exts : List Bytes) (target : Bytes) (roots : List T) (fs : FS) :
    (∃ e, (mkdirRootsApi f exts target true roots fs).err = some (.val e)) ↔
    (∃ e, (mkdirRootsApi f exts target false roots fs).err = some (.val e)) := by
  cases hv : validateVisits (roots.map (growRoot f)).flatten with
  | some e => simp [mkdirRootsApi, hv]
  | none =>
    simp only [mkdirRootsApi, hv, Bool.false_eq_true, if_false, if_true]
    cases hm : mkdirRoots fs target exts (roots.map (growRoot f)) with
    | mk fs' e =>
      cases e <;> simp

/-- the dry-run counts of a root are what a real Mkdir (same extensions) creates: there are exactly that many
    pairwise different node paths flagged file / directory, none of them existed before, and after the
    real run each exists as an empty regular file / as a directory. (Forests of good names with distinct
    sibling names, hypotheses of `C06_exact`.) -/
theorem C09_counts_are_created (f : Fmt) (exts : List Bytes) (ts : List Bytes) (roots : List T) (fs : FS)
    (hts : GoodList ts) (hg : AllGoodL roots) (hd : DistinctL roots) (hc : fs.Closed)
    (hnf : ∀ i < ts.length, notFile fs (key (ts.take (i + 1))))
    (hnone : anyRootExists fs (key ts) (roots.map (growRoot f)) = false) :
    ((pathsOf exts ts roots).map (fun e => key e.1)).Nodup ∧
    ∀ t ∈ roots,
      countFiles exts (growRoot f t) = ((pathsOf exts ts [t]).filter (fun e => e.2)).length ∧
      countDirs exts (growRoot f t) = ((pathsOf exts ts [t]).filter (fun e => !e.2)).length ∧
      ∀ e ∈ pathsOf exts ts [t], fs.lookup (key e.1) = none ∧
        (mkdirRoots fs (key ts) exts (roots.map (growRoot f))).1.lookup (key e.1)
          = some (if e.2 then Kind.file 0 else Kind.dir) := by
  obtain ⟨_, hex⟩ := mkdirRoots_exact f exts ts roots fs hts hg hd hc hnf hnone
  have habs := nodes_absent f exts ts roots fs hts hg hc hnone
  refine ⟨pathsOf_nodup exts roots ts hts hg hd, ?_⟩
  intro t ht
  have hgt : AllGoodT t := by
    have : ∀ (ks : List T), AllGoodL ks → ∀ t ∈ ks, AllGoodT t := by
      intro ks
      induction ks with
      | nil => intro _ t ht; simp at ht
      | cons x rest ih =>
        intro hgl t ht
        rw [AllGoodL] at hgl
        rcases List.mem_cons.mp ht with rfl | ht
        · exact hgl.1
        · exact ih hgl.2 t ht
    exact this roots hg t ht
  obtain ⟨hcf, hcd⟩ := counts_growRoot f exts ts hts t hgt
  refine ⟨hcf, hcd, ?_⟩
  intro e he
  have hin : e ∈ pathsOf exts ts roots := (pathsOf_mem_split exts ts roots e).mpr ⟨t, ht, he⟩
  exact ⟨habs e hin, by simpa [kindOfFlag] using hex.nodes e hin⟩

end Gtree

namespace Gtree
/-- Tie to the source: which nodes are regular files is decided by `fileConsiderer.isFile` (file_considerer.go,
    translated on this run), which is the model's `isFileNode`: no children, and the name ends with a configured
    extension. -/
theorem C09_is_file_is_the_source (exts : List Bytes) (h : Nat) (n : Bytes) (ks : List T) :
    Src.fileConsiderer.isFile ⟨exts⟩ (toNode h (.mk n ks)) = isFileNode exts n (!ks.isEmpty) :=
  isFile_src exts h n ks
end Gtree

namespace Gtree
/-- **The dry-run counts predict the real run in the massive mode too, whatever the schedule**: under the
    hypotheses of `C09_counts_are_created`, after ANY interleaving of the roots' file-system operations every node
    path the counts stand for exists — as an empty regular file if it was counted as a file, as a directory
    otherwise. -/
theorem C09_counts_are_created_massive (f : Fmt) (exts : List Bytes) (ts : List Bytes) (roots : List T) (fs : FS)
    (hts : GoodList ts) (hg : AllGoodL roots) (hd : DistinctL roots) (hc : fs.Closed)
    (hnf : ∀ i < ts.length, notFile fs (key (ts.take (i + 1))))
    (hnone : anyRootExists fs (key ts) (roots.map (growRoot f)) = false)
    (r : List EOp) (hint : Interleave (roots.map (fun t => opsTree exts ts t)) r) :
    ∃ s, runE fs r = (s, none) ∧
      ∀ t ∈ roots, ∀ e ∈ pathsOf exts ts [t], s.lookup (key e.1) = some (if e.2 then Kind.file 0 else Kind.dir) := by
  have habs := nodes_absent f exts ts roots fs hts hg hc hnone
  obtain ⟨s, hrun, hsame⟩ := interleave_same exts ts roots fs hts hg hd hnf habs r hint
  obtain ⟨_, hcounts⟩ := C09_counts_are_created f exts ts roots fs hts hg hd hc hnf hnone
  refine ⟨s, hrun, fun t ht e he => ?_⟩
  have := (hcounts t ht).2.2 e he
  rw [hsame]
  have h2 := this.2
  simp only [mkdirRoots, hnone, Bool.false_eq_true, if_false] at h2
  rw [mkdirRoots_go_forest f exts ts hts roots fs hg] at h2
  exact h2
end Gtree

namespace Gtree
open Gtree.Src in
/-- **The dry-run option, in the source (config.go, translated on this run)**: for EVERY list of public options — nil
    entries, repetitions, any order, any other options before or after — the configuration an operation works with
    has dry run switched on exactly when `WithDryRun()` is in the list; this holds for the configuration of Output
    (`newConfig`) and for that of Mkdir / Verify / Walk (`newConfigWithoutEncode`), whose encoding is the default
    whatever encoding options were given. -/
theorem C09_dry_run_option_in_the_source (os : List Opt) :
    (newConfig (os.map Opt.fn)).dryrun = os.any Opt.isDryRun ∧
    (newConfigWithoutEncode (os.map Opt.fn)).dryrun = os.any Opt.isDryRun ∧
    (newConfigWithoutEncode (os.map Opt.fn)).encode = encodeDefault := by
  rw [newConfigWithoutEncode_src, newConfig_src, dryrun_fold, defaultConfig_fields.1]
  refine ⟨by rw [Bool.false_or], by rw [Bool.false_or], rfl⟩

/-- every option sets its own field only: the configuration is the options applied in order to the default one -/
theorem C09_options_apply_in_order_in_the_source (os : List Opt) :
    Src.newConfig (os.map Opt.fn) = os.foldl Opt.apply defaultConfig :=
  newConfig_src os
end Gtree

namespace Gtree
/-- Tie to the source, pointer code included (heap mode of /verif/translate, regenerated on every run): THE DRY-RUN PRINTER
    of simple_tree_spreader.go — `colorizeSpreaderSimple.spreadBranch` (the recursion), `colorize` (the file decision and
    the two counters) and `summary` — translated over an explicit heap, the counters as fields of the receiver, colour
    switched off.  For every heap that holds a root whose nodes read as the model's `growRoot` (what the translated grower
    leaves: `C01_grower_is_the_source`), every extension list and counters reset to zero as `spread` resets them: the
    printer returns one line per node in pre-order, counts as files exactly the childless nodes whose name ends with an
    extension and as directories all others (`countFiles`, `countDirs` — the numbers `C09_counts_are_created` relates to
    what a real Mkdir creates), and `"%s\n%s\n"` of its text and its summary is the model's `dryRunReport`. -/
theorem C09_dry_run_printer_is_the_source (cs : SrcH.colorizeSpreaderSimple) (h : SrcH.Heap) (t : T) (r : Go.Ptr)
    (f : Fmt) (fuel : Nat) (hr : SrcH.Repr h t r 0 1) (hf : t.size ≤ fuel)
    (hread : SrcH.readNode h t r 1 = growRoot f t) (h0 : cs.fileCounter = 0) (h0' : cs.dirCounter = 0) :
    ∃ cs' text, SrcH.colorizeSpreaderSimple.spreadBranch fuel h cs r = some (cs', text) ∧
      cs'.fileCounter = (countFiles cs.fileConsiderer.extensions (growRoot f t) : Nat) ∧
      cs'.dirCounter = (countDirs cs.fileConsiderer.extensions (growRoot f t) : Nat) ∧
      text ++ [0x0A] ++ SrcH.colorizeSpreaderSimple.summary h cs' ++ [0x0A] = dryRunReport f cs.fileConsiderer.extensions t := by
  have hrun := SrcH.dry_node h t cs r 0 1 fuel hr hf
  rw [hread] at hrun
  refine ⟨_, _, hrun, by simp [SrcH.bump, h0], by simp [SrcH.bump, h0'], ?_⟩
  rw [SrcH.summary_eq h _ (countDirs cs.fileConsiderer.extensions (growRoot f t))
    (countFiles cs.fileConsiderer.extensions (growRoot f t)) (by simp [SrcH.bump, h0']) (by simp [SrcH.bump, h0])]
  simp [dryRunReport, lf]
end Gtree

namespace Gtree

/-- **C09 (facts: which printer a dry run uses).**  The spreader of the simple tree comes from the factory that picks
    `newColorizeSpreaderSimple` (given the configured extensions) when `cfg.dryrun`, which returns the
    `colorizeSpreaderSimple` the dry-run theorems are about; and Mkdir's dry run prints with that spreader after
    validating and growing. -/
theorem C09_facts_dry_run_uses_the_colorize_printer :
    lookupL "spreader" Facts.treeSimpleFields = ["spreaderFactory", "cfg.encode", "cfg.dryrun", "cfg.fileExtensions"] ∧
    lookupL "spreaderFactory" Facts.factoryCtors = ["newColorizeSpreaderSimple", "newSpreaderSimple"] ∧
    lookupL "newColorizeSpreaderSimple" Facts.ctorReturns = ["colorizeSpreaderSimple", "defaultSpreaderSimple"] ∧
    (lookupL "mkdir" Facts.treeSimpleCalls).take 3 = ["grower.enableValidation", "grower.grow", "spreader.spread"] := by decide

end Gtree
