import Gtree.Lemmas.Validate
/-
  C09 — dry run touches nothing and predicts the real run (model of the repaired code).
-/
namespace Gtree

/-- no dry-run entry point changes the file system: `Output…(WithDryRun)` does not even take one
    (by type), and the Mkdir entry points return the one they were given -/
theorem C09_mkdir_dry_no_fs_effect (f : Fmt) (exts : List Bytes) (target : Bytes) (roots : List T) (fs : FS) :
    (mkdirRootsApi f exts target true roots fs).fs = fs := by
  cases hv : validateVisits (roots.map (growRoot f)).flatten <;> simp [mkdirRootsApi, hv]

theorem C09_mkdir_dry_no_fs_effect_md (f : Fmt) (exts : List Bytes) (target : Bytes) (inp : Input) (fs : FS) :
    (mkdirMd f exts target true inp fs).fs = fs := by
  cases hg : (generate inp).err with
  | some e => simp [mkdirMd, hg]
  | none => simp only [mkdirMd, hg]; exact C09_mkdir_dry_no_fs_effect f exts target _ fs

/-- the report of one root: the tree text of plain output, an LF, the two counts, an LF -/
theorem C09_report_shape (f : Fmt) (exts : List Bytes) (r : T) :
    dryRunReport f exts r =
      (textChunks f r).flatten ++ [lf] ++
        summaryBytes (countDirs exts (growRoot f r)) (countFiles exts (growRoot f r)) ++ [lf] := rfl

/-- every node is counted exactly once, as a directory or as a file -/
theorem C09_counts_partition (exts : List Bytes) (vs : List Visit) :
    countDirs exts vs + countFiles exts vs = vs.length := by
  induction vs with
  | nil => rfl
  | cons v vs ih =>
    simp only [countDirs, countFiles, List.filter_cons] at ih ⊢
    cases isFileNode exts v.name v.hasChild <;> simp <;> omega

/-- a node is counted as a file iff it is a leaf whose name ends with one of the extensions
    (the same predicate `mkNodes` uses to create a file rather than a directory) -/
theorem C09_file_iff (exts : List Bytes) (name : Bytes) (hasChild : Bool) :
    isFileNode exts name hasChild = true ↔ hasChild = false ∧ ∃ e ∈ exts, hasSuffix name e = true := by
  simp [isFileNode]

/-- dry run rejects a tree because of its names iff the real run does -/
theorem C09_reject_iff (f : Fmt) (exts : List Bytes) (target : Bytes) (roots : List T) (fs : FS) :
    (∃ e, (mkdirRootsApi f exts target true roots fs).err = some (.val e)) ↔
    (∃ e, (mkdirRootsApi f exts target false roots fs).err = some (.val e)) := by
  cases hv : validateVisits (roots.map (growRoot f)).flatten with
  | some e => simp [mkdirRootsApi, hv]
  | none =>
    simp only [mkdirRootsApi, hv, Bool.false_eq_true, if_false, if_true]
    cases hm : mkdirRoots fs target exts (roots.map (growRoot f)) with
    | mk fs' e =>
      cases e <;> simp

end Gtree
