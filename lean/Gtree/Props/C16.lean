import Gtree.Model.Cli
/-
  C16 — exit status of the CLI model: 0 iff the invocation reached the library and it returned nil.
  (The stage table is finite; the theorem is a case analysis over it.)
-/
namespace Gtree

/-- every helper of cmd/gtree that ends the process through `cli.Exit` does so with a non-zero status
    (a statement about the regenerated table: it is re-decided against the sources on every run) -/
theorem C16_exit_helpers_nonzero : ∀ p ∈ Facts.cliExitCodes, p.2 ≠ 0 := by decide

/-- the helpers the model's table names exist in the sources, with pairwise different statuses other than
    the 1 of a usage error: the failure classes stay distinguishable -/
theorem C16_exit_classes_distinct :
    [exitCode "exitErrOpen", exitCode "exitErrOutput", exitCode "exitErrMkdir", exitCode "exitErrVerify"].Nodup ∧
    ∀ c ∈ [exitCode "exitErrOpen", exitCode "exitErrOutput", exitCode "exitErrMkdir", exitCode "exitErrVerify"], 1 < c := by
  decide

/-- every function of cmd/gtree that runs a library call reports its failure through a helper -/
theorem C16_actions_report_failures :
    "actionOutput:exitErrOutput" ∈ Facts.cliActionExits ∧ "actionOutput:exitErrOpen" ∈ Facts.cliActionExits ∧
    "actionOutput:exitErrOpts" ∈ Facts.cliActionExits ∧ "actionMkdir:exitErrMkdir" ∈ Facts.cliActionExits ∧
    "actionMkdir:exitErrOutput" ∈ Facts.cliActionExits ∧ "actionMkdir:exitErrOpen" ∈ Facts.cliActionExits ∧
    "actionVerify:exitErrVerify" ∈ Facts.cliActionExits ∧ "actionVerify:exitErrOpen" ∈ Facts.cliActionExits := by
  decide

theorem C16_exit_zero_iff (sub : Sub) (dry : Bool) (st : CliStage) :
    exitStatus sub dry st = 0 ↔ st = .lib true := by
  cases st with
  | usage => simp [exitStatus]
  | opts => simp only [exitStatus]; decide
  | open_ => simp only [exitStatus]; decide
  | lib ok =>
    cases ok
    · cases sub <;> cases dry <;> simp only [exitStatus] <;> decide
    · simp [exitStatus]

/-- every failure class has a non-zero status -/
theorem C16_failure_nonzero (sub : Sub) (dry : Bool) (st : CliStage) (h : st ≠ .lib true) :
    exitStatus sub dry st ≠ 0 := fun h0 => h ((C16_exit_zero_iff sub dry st).mp h0)

end Gtree
