import Gtree.Model.Cli
/-
  C16 — exit status of the CLI model: 0 iff the invocation reached the library and it returned nil.
  (The stage table is finite; the theorem is a case analysis over it.)
-/
namespace Gtree

theorem C16_exit_zero_iff (sub : Sub) (dry : Bool) (st : CliStage) :
    exitStatus sub dry st = 0 ↔ st = .lib true := by
  cases st with
  | usage => simp [exitStatus]
  | opts => simp [exitStatus]
  | open_ => simp [exitStatus]
  | lib ok =>
    cases ok
    · cases sub <;> cases dry <;> simp [exitStatus]
    · simp [exitStatus]

/-- every failure class has a non-zero status -/
theorem C16_failure_nonzero (sub : Sub) (dry : Bool) (st : CliStage) (h : st ≠ .lib true) :
    exitStatus sub dry st ≠ 0 := fun h0 => h ((C16_exit_zero_iff sub dry st).mp h0)

end Gtree
