import Gtree.Model.Api
/-
  C04 — the formatted tree handed to the JSON / YAML / TOML encoder is isomorphic to the tree.
  (The encoders themselves are third-party code: a parameter here, tested by decoding their output.)
-/
namespace Gtree

mutual
/-- read a formatted tree back as a tree -/
def FNode.toT : FNode → T
  | .mk v cs => .mk v (FNode.toTs cs)
def FNode.toTs : List FNode → List T
  | [] => []
  | c :: cs => c.toT :: FNode.toTs cs
end

mutual
theorem toT_toFormatted : ∀ t : T, (toFormatted t).toT = t
  | .mk n ks => by simp [toFormatted, FNode.toT, toTs_toFormattedKids ks]
theorem toTs_toFormattedKids : ∀ ks : List T, FNode.toTs (toFormattedKids ks) = ks
  | [] => by simp [toFormattedKids, FNode.toTs]
  | t :: ts => by simp [toFormattedKids, FNode.toTs, toT_toFormatted t, toTs_toFormattedKids ts]
end

/-- names, child order and nesting of the formatted tree equal the tree's -/
theorem C04_formatted_iso (t : T) : (toFormatted t).toT = t := toT_toFormatted t

/-- a node has no formatted children iff it has no children (`null` and `[]` are the same to a decoder) -/
theorem C04_children_empty_iff (n : Bytes) (ks : List T) :
    (match toFormatted (.mk n ks) with | .mk _ cs => cs.isEmpty) = ks.isEmpty := by
  cases ks <;> simp [toFormatted, toFormattedKids]

/-- framing: one value per root is handed to the encoder, in input order -/
theorem C04_one_value_per_root (inp : Input) (h : (generate inp).err = none) :
    (outputFormatted inp).1 = (generate inp).roots.map toFormatted ∧ (outputFormatted inp).2 = none := by
  simp [outputFormatted, h]

end Gtree
