import Gtree.Lemmas.EntryFacts
import Gtree.Lemmas.HeapFormat
import Gtree.Lemmas.SourceConfig
import Gtree.Model.Api
import Gtree.Lemmas.JsonTree
/-
  C04 — the formatted tree handed to the JSON / YAML / TOML encoder is isomorphic to the tree.
  The JSON encoder (`encoding/json` on the `jsonNode` struct) is modelled in `Gtree.Model.Json` and compared
  byte for byte with the real output; the JSON theorems below are about that model.  The YAML and TOML
  encoders are third-party code: a parameter here, tested by decoding their output.
-/
namespace Gtree

mutual
/-- read a formatted tree back as a tree -/
def FNode.toT : FNode → T
  | .mk v cs => .mk v (FNode.toTs cs)
def FNode.toTs : List FNode → List T
  | [] => []
  | c :: cs => c.toT :: FNode.toTs cs
end

mutual
theorem toT_toFormatted : ∀ t : T, (toFormatted t).toT = t
  | .mk n ks => by simp [toFormatted, FNode.toT, toTs_toFormattedKids ks]
theorem toTs_toFormattedKids : ∀ ks : List T, FNode.toTs (toFormattedKids ks) = ks
  | [] => by simp [toFormattedKids, FNode.toTs]
  | t :: ts => by simp [toFormattedKids, FNode.toTs, toT_toFormatted t, toTs_toFormattedKids ts]
end

/-- names, child order and nesting of the formatted tree equal the tree's -/
theorem C04_formatted_iso (t : T) : (toFormatted t).toT = t := toT_toFormatted t

/-- a node has no formatted children iff it has no children (`null` and `[]` are the same to a decoder) -/
theorem C04_children_empty_iff (n : Bytes) (ks : List T) :
    (match toFormatted (.mk n ks) with | .mk _ cs => cs.isEmpty) = ks.isEmpty := by
  cases ks <;> simp [toFormatted, toFormattedKids]

/-- framing: one value per root is handed to the encoder, in input order -/
theorem C04_one_value_per_root (inp : Input) (h : (generate inp).err = none) :
    (outputFormatted inp).1 = (generate inp).roots.map toFormatted ∧ (outputFormatted inp).2 = none := by
  simp [outputFormatted, h]

/-! ### the JSON text (model of `encoding/json` on `jsonNode`, `Gtree.Model.Json`) -/
namespace Json

/-- C04 (JSON, well-formed and isomorphic): reading the printed stream value by value with the JSON reader
    gives one record per root, in input order, and reading the records as trees gives back the forest:
    names (quotes, backslashes, control characters, `<>&`, U+2028/9, any other scalar value), child order
    and nesting. -/
theorem C04_json_roundtrip (ts : List CT) :
    (decodeStream (encodeRoots ts)).bind readAll = some ts := by
  have h := parseLines_encodeRoots ts ((encodeRoots ts).length + 1)
    (by
      have := count_nl_encodeRoots ts
      have := List.count_le_length (a := '\n') (l := encodeRoots ts)
      omega)
  simp [decodeStream, h, readAll_map_toJ]

/-- every string is read back from its quoted form, whatever follows it -/
theorem C04_json_string_roundtrip (s rest : List Char) : parseStr (escape s ++ '"' :: rest) = some (s, rest) :=
  parseStr_escape s rest

/-- one JSON value per line: the stream has exactly one line feed per root (none inside a value) -/
theorem C04_json_one_line_per_root (ts : List CT) : (encodeRoots ts).count '\n' = ts.length :=
  count_nl_encodeRoots ts

/-- a `null` and an empty `children` list are the same tree to the reader -/
theorem C04_json_null_is_empty (v : List Char) :
    J.toCT (.obj (.cons valueKey (.str v) (.cons childrenKey .null .nil))) =
    J.toCT (.obj (.cons valueKey (.str v) (.cons childrenKey (.arr .nil) .nil))) := by
  simp [J.toCT, JL.toCTs]

/-- the records are `{"value": …, "children": …}` — the keys the struct tags in the sources give them today
    (decided on the regenerated facts), the same in the tinywasm variant -/
theorem C04_json_keys : valueKey = "value".toList ∧ childrenKey = "children".toList ∧
    Facts.formattedTags.lookup "wasm_tree_spreader.go:jsonNode" =
      Facts.formattedTags.lookup "simple_tree_spreader.go:jsonNode" := by decide

/-- non-vacuity: a name made of a quote, a backslash, a line feed, `<`, U+2028 and `é`, with a child -/
example : (decodeStream (encodeRoots [.mk ['"', '\\', '\n', '<', Char.ofNat 0x2028, 'é'] [.mk ['x'] []]])).bind readAll
    = some [.mk ['"', '\\', '\n', '<', Char.ofNat 0x2028, 'é'] [.mk ['x'] []]] := C04_json_roundtrip _

end Json

end Gtree

namespace Gtree
open Gtree.Src in
/-- **Which encoding is selected, in the source (config.go, translated on this run)**: the LAST of the encoding
    options in the list decides, whatever other options surround it; with none the output is the text tree. -/
theorem C04_encoding_option_in_the_source (os : List Opt) :
    (newConfig (os.map Opt.fn)).encode = lastEncode encodeDefault os := by
  rw [newConfig_src, encode_fold]
  rfl
end Gtree

namespace Gtree
/-- Fact regenerated from the sources on this run: every Output entry point, under both of its names, builds its configuration with `newConfig` — the constructor that keeps the encoding option (`C04_encoding_option_in_the_source`). -/
theorem C04_facts_entry_points_configuration : Facts.entryConfig = expectedEntryConfig := entryConfig_as_expected

/-- Fact regenerated from the sources on this run: every deprecated alias (`Output`, `Mkdir`, `Verify`, `Walk`,
    `OutputProgrammably`, `MkdirProgrammably`, `VerifyProgrammably`, `WalkProgrammably`, `WalkIterProgrammably`) has, word for
    word, the body of the function that replaces it. -/
theorem C04_facts_aliases_identical : Facts.aliasBodiesEqual.all (fun e => e.2) = true := aliases_identical
end Gtree

namespace Gtree
/-- Tie to the source, pointer code included (heap mode of /verif/translate, regenerated on every run): THE RECORDS HANDED
    TO THE ENCODERS.  `toFormattedNode` of simple_tree_spreader.go with `jsonNode.setChild` / `getChild` (`yamlNode` and
    `tomlNode` have the same methods; that their field tags are `value` / `children` is a regenerated fact), translated over
    two heaps — the nodes, and the records with their allocator.  For every heap that holds a tree, a fresh childless
    record named like the root, and every fuel above the tree's size: the record heap afterwards holds, at that record,
    exactly the model's `toFormatted t` — same names, same order of children, same nesting (each child's record is the
    one just appended: the loop invariant `len(Children) = i`) — and no older record was touched.  `C04_formatted_iso`
    (`(toFormatted t).toT = t`) and the JSON round trip are therefore about what this code hands to the encoder. -/
theorem C04_formatted_tree_is_the_source (h : SrcH.Heap) (t : T) (hj : SrcH.HeapJ) (alj : Nat) (p par fp : Nat)
    (lvl fuel : Nat) (hr : SrcH.Repr h t p par lvl) (hf : t.size ≤ fuel) (hfp : fp < alj)
    (hn : (hj fp).Name = t.name) (hch : (hj fp).Children = []) :
    ∃ hj' alj', SrcH.toFormattedNode fuel h hj alj p fp = some (hj', alj', fp) ∧ alj ≤ alj' ∧
      SrcH.ReprJ hj' 0 alj' (toFormatted t) fp ∧ (∀ q, q < alj → q ≠ fp → hj' q = hj q) :=
  SrcH.toFormattedNode_heap h t hj alj p par fp lvl fuel hr hf hfp hn hch
end Gtree
