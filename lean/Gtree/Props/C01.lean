import Gtree.Lemmas.Render
import Gtree.Model.Api
/-
  C01 — text output obeys the tree-drawing rule (property theorems; helper lemmas live in Lemmas/).
-/
namespace Gtree

/-- Rendering refinement, for every tree and every four byte strings: the lines the grower/spreader
    produce for a root are exactly the lines of the top-down drawing rule. -/
theorem C01_render_refines_spec (f : Fmt) (t : T) :
    (growRoot f t).map Visit.row = specRoot f t := growRoot_rows f t

/-- one line per node: the number of lines written for a root is the number of its nodes -/
theorem C01_one_line_per_node (f : Fmt) (t : T) : (textChunks f t).length = t.size := by
  simp [textChunks, growRoot_length]

end Gtree
