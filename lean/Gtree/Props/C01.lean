import Gtree.Lemmas.SourceRefines
import Gtree.Lemmas.HeapBuilder
import Gtree.Lemmas.HeapZipper
import Gtree.Lemmas.HeapGrower
import Gtree.Lemmas.HeapSpread
import Gtree.Lemmas.Output
/-
  C01 — text output obeys the tree-drawing rule (property theorems; helper lemmas live in Lemmas/).

  Reading guide: `spell f s` (Spec/Spelling.lean) is the Markdown document that writes the forest `f`
  in the notation `s`; `Spelling.Valid` says the notation is well-formed and the names can be written
  in it; `mergeRoot` (Spec/Merge.lean) makes equally named siblings one node; `renderSpec`
  (Spec/Render.lean) is the tree-drawing rule; `outputIter (textJob fmt)` is the model of
  `OutputFromMarkdown` (Model/Api.lean), `Out.written` the bytes given to the writer, `Out.err` the
  returned error.
-/
namespace Gtree

/-- Rendering refinement, for every tree and every four byte strings: the lines the grower/spreader
    produce for a root are exactly the lines of the top-down drawing rule. -/
theorem C01_render_refines_spec (f : Fmt) (t : T) :
    (growRoot f t).map Visit.row = specRoot f t := growRoot_rows f t

/-- one line per node: the number of lines written for a root is the number of its nodes -/
theorem C01_one_line_per_node (f : Fmt) (t : T) : (textChunks f t).length = t.size := by
  simp [textChunks, growRoot_length]

/-- Round trip: every valid spelling of a forest generates that forest with equally named siblings
    merged, without error. -/
theorem C01_generate_roundtrip (f : List T) (s : Spelling) (hv : s.Valid (items 1 f)) :
    (generate { doc := spell f s }).err = none ∧ (generate { doc := spell f s }).roots = f.map mergeRoot :=
  generate_spell f s hv

/-- C01, full statement: for every forest, every valid spelling of it and every four branch strings,
    `OutputFromMarkdown` writes exactly the drawing rule applied to the forest with equally named
    siblings merged, and returns nil. -/
theorem C01_text_output (f : List T) (s : Spelling) (fmt : Fmt) (hv : s.Valid (items 1 f)) :
    outputIter (textJob fmt) { doc := spell f s } {} = ⟨renderSpec fmt (f.map mergeRoot), none⟩ := by
  obtain ⟨herr, hroots⟩ := generate_spell f s hv
  unfold outputIter
  simp only [herr, Option.isNone_none, if_true, hroots]
  obtain ⟨j, hj⟩ := runRoots_nofault (textJob fmt) rfl (f.map mergeRoot) 0
  rw [hj]
  simp only [textJob]
  rw [text_of_roots]
  rfl

/-- the same for the all-at-once path (`generate(); grow(); spread()`) -/
theorem C01_text_output_batch (f : List T) (s : Spelling) (fmt : Fmt) (hv : s.Valid (items 1 f)) :
    outputBatch (textJob fmt) false { doc := spell f s } {} = ⟨renderSpec fmt (f.map mergeRoot), none⟩ := by
  obtain ⟨herr, hroots⟩ := generate_spell f s hv
  unfold outputBatch
  simp only [herr, hroots]
  simp only [textJob, Bool.false_eq_true, if_false, emit_nofault]
  rw [text_of_roots]

end Gtree

namespace Gtree
/-! Non-vacuity: a concrete non-trivial forest (repeated sibling names, three levels) and a
    concrete spelling (two-space units, alternating bullets, a blank row) satisfy `Spelling.Valid`. -/

def exForest : List T :=
  [.mk [0x61] [.mk [0x62] [.mk [0x63] []], .mk [0x64] [], .mk [0x62] [.mk [0x65] []]], .mk [0x66] []]

def exSpelling : Spelling :=
  { c := sp, unit := 2, bullet := fun i => if i % 2 = 0 then hy else ast, sharp := false,
    blanks := fun i => if i = 1 then [[sp, tab]] else [], crlf := false, finalNL := true }

theorem exItems : items 1 exForest =
    [(1, [0x61]), (2, [0x62]), (3, [0x63]), (2, [0x64]), (2, [0x62]), (3, [0x65]), (1, [0x66])] := by
  simp [exForest, items]

example : exSpelling.Valid (items 1 exForest) := by
  rw [exItems]
  refine ⟨Or.inl rfl, by decide, ?_, ?_, ?_, ?_⟩
  · intro i; simp only [exSpelling]; split <;> simp
  · intro it hit
    simp only [List.mem_cons, List.not_mem_nil, or_false] at hit
    rcases hit with rfl | rfl | rfl | rfl | rfl | rfl | rfl <;>
      exact ⟨by decide, by decide, by decide, by simp [exSpelling], by simp [exSpelling]⟩
  · intro i b hb
    simp only [exSpelling] at hb
    split at hb
    · simp only [List.mem_singleton] at hb; subst hb; exact ⟨by decide, by decide, by decide⟩
    · simp at hb
  · intro i r hr
    simp only [spellRows, rowOf, listRow, exSpelling, List.mem_append, List.mem_cons, List.not_mem_nil, or_false] at hr
    have hbl : ∀ j : Nat, ∀ b ∈ (if j = 1 then [[sp, tab]] else ([] : List Bytes)), b.length ≤ 2 := by
      intro j b hb; split at hb <;> simp_all
    simp only [Bool.false_eq_true, if_false] at hr
    rcases hr with h | h | h | h | h | h | h | h | h | h | h | h | h | h <;>
      first
        | (have := hbl _ r h; simp only [maxToken]; omega)
        | (subst h; simp [maxToken])

end Gtree

namespace Gtree
/-- Tie to the source, re-checked on every run: the line parser the round trip (`C01_generate_roundtrip`) is about is — row for row, parser state for parser state — `Parser.Parse` of markdown/parser.go as translated statement by statement by /verif/translate on this run (`Generated/Source.lean`): same new state (`isSharpRoot`, `spaces`, `sep`), same error, same hierarchy and item text. -/
theorem C01_parser_is_the_source (st : PState) (row : Bytes) :
    Src.Parser.Parse (toSrc st) row = (toSrc (parse st row).1, resSrc (parse st row).2) :=
  Parse_src st row

/-- the parser every generator starts with (`md.NewParser()` returns `&Parser{}`) is the model's initial state -/
example : toSrc {} = { isSharpRoot := false, spaces := 0, sep := [] } := rfl
end Gtree

namespace Gtree
/-- Tie to the source: "equally named siblings under one parent are a single node" rests on `Node.findChildByText`
    (node.go, translated on this run): it returns the first child with the row's name — the child the model's
    builder re-opens (`descend` through `splitAtName`) — or nil. -/
theorem C01_find_child_is_the_source (h : Nat) (n x : Bytes) (ks : List T) :
    Src.Node.findChildByText (toNode h (.mk n ks)) x = ((splitAtName x ks).map (fun p => p.2.1)).map (toNode (h + 1)) :=
  findChildByText_is_splitAtName h n x ks
end Gtree

namespace Gtree
/-- Tie to the source: a node's branch is set by `Node.setBranch` (node.go, translated on this run) to the
    concatenation, in order, of the strings the grower hands it — the concatenation `C01_render_refines_spec` is
    about. -/
theorem C01_branch_is_concatenation_in_the_source (n : Src.Node) (parts : List Bytes) :
    (Src.Node.setBranch n parts).1 = { n with brnch := { n.brnch with value := parts.flatten } } :=
  setBranch_src n parts
end Gtree


namespace Gtree
/-- Tie to the source, pointer code included (heap mode of /verif/translate, `Generated/SourceHeap.lean`, regenerated
    on every run): the GROWER of simple_tree_grower.go — `grow`, `assemble`, `assembleBranch` with its walk up the
    parent links, `assembleBranchDirectly/Indirectly/Finally` — and the methods of node.go it calls (`clean`,
    `setBranch`, `setPath`, `path`, `branch`, `isRoot`, `isLastOfHierarchy` with its comparison of POINTERS) are
    translated statement by statement over an explicit heap.  For every heap that holds a forest (names, levels,
    parent links, child lists; all pointers different), every four branch strings, whatever stale branches and paths
    the cells hold, and every fuel above `2·size + 1`: the translated `grow` returns no error, changes nothing but
    the `brnch` fields of the forest's own nodes, and what the printers and the walker then read from the nodes
    (name, branch, level, path, has-child, pre-order) is the model's `growRoot` of every root — so the rows are the
    lines of the drawing rule (`specRoot`). -/
theorem C01_grower_is_the_source (dg : SrcH.defaultGrowerSimple) (ts : List T) (h : SrcH.Heap) (rs : List Go.Ptr)
    (fuel : Nat) (hr : SrcH.ReprRoots h ts rs) (hnd : (SrcH.ptrsKids h ts rs).Nodup)
    (hf : 2 * sizeList ts + 1 ≤ fuel) (hv : dg.enabledValidation = false) :
    ∃ h', SrcH.defaultGrowerSimple.grow fuel h dg rs = some (h', none) ∧
      SrcH.SameShape h h' ∧ (∀ q, q ∉ SrcH.ptrsKids h ts rs → h' q = h q) ∧
      SrcH.readKids h' ts rs 1 = ts.flatMap (growRoot (SrcH.fmtOf dg)) ∧
      (SrcH.readKids h' ts rs 1).map Visit.row = ts.flatMap (specRoot (SrcH.fmtOf dg)) := by
  obtain ⟨h', hrun, hrest⟩ := SrcH.grow_forest dg ts h rs fuel hr hnd hf
  have he : SrcH.expErr dg (ts.flatMap (growRoot (SrcH.fmtOf dg))) = none := by simp [SrcH.expErr, hv]
  rw [he] at hrun
  obtain ⟨hs, hfr, hrd⟩ := hrest he
  refine ⟨h', hrun, hs, hfr, hrd, ?_⟩
  rw [hrd, List.map_flatMap]
  congr 1
  funext t
  exact growRoot_rows (SrcH.fmtOf dg) t
end Gtree

namespace Gtree
/-- Tie to the source, pointer code included (heap mode, regenerated on every run): the TEXT PRINTER of
    simple_tree_spreader.go (`defaultSpreaderSimple.spread`, the recursion `spreadBranch` with its `fmt.Fprint`) after
    the GROWER, both translated over an explicit heap; the caller's writer is a fault oracle.  For every heap that
    holds a forest (all pointers different), every four branch strings, every writer and every fuel above
    `2·size + 1`: growing succeeds and the printer then issues one `Write` per node in pre-order — exactly the model's
    `textChunks` of every root (the line of the drawing rule and a line feed) — until a `Write` fails. -/
theorem C01_printer_is_the_source (dg : SrcH.defaultGrowerSimple) (ds : SrcH.defaultSpreaderSimple) (ts : List T)
    (h : SrcH.Heap) (rs : List Go.Ptr) (fuel : Nat) (w : Go.Writer)
    (hr : SrcH.ReprRoots h ts rs) (hnd : (SrcH.ptrsKids h ts rs).Nodup) (hf : 2 * sizeList ts + 1 ≤ fuel)
    (hv : dg.enabledValidation = false) :
    ∃ h', SrcH.defaultGrowerSimple.grow fuel h dg rs = some (h', none) ∧
      SrcH.defaultSpreaderSimple.spread fuel h' w ds rs
        = some (SrcH.writeAll w (ts.flatMap (textChunks (SrcH.fmtOf dg)))) := by
  obtain ⟨h', hrun, hrest⟩ := SrcH.grow_forest dg ts h rs fuel hr hnd hf
  have he : SrcH.expErr dg (ts.flatMap (growRoot (SrcH.fmtOf dg))) = none := by simp [SrcH.expErr, hv]
  rw [he] at hrun
  obtain ⟨hs, _, hrd⟩ := hrest he
  refine ⟨h', hrun, ?_⟩
  rw [SrcH.spread_heap ds h' ts w rs fuel (SrcH.ReprRoots_shape hs ts rs hr) (by omega), hrd, List.map_flatMap]
  rfl
end Gtree

namespace Gtree
/-- Tie to the source, pointer code included (heap mode, regenerated on every run): ONE STEP OF THE TREE BUILDER,
    `stack.dfs` of stack.go (push / pop / size over container/list; `isDirectlyUnder`, `findChildByText`, `addChild`,
    `setParent` of node.go), translated over an explicit heap with the stack's list as a world component.  For every
    heap, every stack of non-nil pointers (root first) and every new node: the open nodes are popped until the one on
    top is exactly one level above the new node (`popTo`); then, if it has a child of the new node's name — the FIRST
    such child — nothing is written and that child is pushed back with its parent: equally named siblings under one
    parent are a single node; otherwise the new node becomes its last child, gets it as parent, and is pushed. -/
theorem C01_dfs_is_the_source (h : SrcH.Heap) (stk : List Go.Ptr) (c : Go.Ptr) (hne : ∀ p ∈ stk, p ≠ 0) :
    SrcH.stack.dfs h stk c =
      (match SrcH.popTo h (h c).hierarchy stk.reverse with
       | none => (h, [], false)
       | some (p, rest) => SrcH.attach h c p rest) :=
  SrcH.dfs_spec h stk c hne
end Gtree

namespace Gtree
/-- Tie to the source, from the rows of a block to the printed lines (heap mode, regenerated on every run): THE TREE
    BUILDER'S STEP COMPOSED OVER A ROOT BLOCK, THEN THE GROWER.  A fresh root node and the fresh nodes `newNode` makes
    for the block's rows (not nil, pairwise different, named and levelled as the rows say, no children yet) are fed one
    after the other through the translated `stack.dfs` (`feedH`; the loop around it — scanner, parser, counter — is the
    hand-written part).  For every heap and every sequence of rows: if the model's zipper (`Model/Generate.lean`:
    `dfs` = `closeTo` then `descend`, folded by `feedM`) rejects a row, the code's `dfs` returns false at that row;
    otherwise the heap afterwards holds, at the bottom of the stack (still the root node), exactly the tree the model
    builds (`closeAll`) — equally named siblings merged as `C01_generate_roundtrip` says — with all pointers different,
    and the translated grower then leaves the model's `growRoot` of that tree in its nodes.  Proof: a representation
    invariant between heap + stack and zipper (`Lemmas/HeapZipper.lean`: `ZR`; popping is `upOne`, `popTo` is `closeTo`,
    `attach` is `descend`; writes stay outside the closed subtrees because all represented pointers differ). -/
theorem C01_builder_is_the_source (dg : SrcH.defaultGrowerSimple) (hv : dg.enabledValidation = false)
    (h : SrcH.Heap) (r : Go.Ptr) (x : Bytes) (cs : List Go.Ptr) (its : List (Nat × Bytes))
    (hr0 : r ≠ 0) (hn : (h r).name = x) (hl : (h r).hierarchy = 1) (hp : (h r).parent = 0) (hc : (h r).children = [])
    (hi : SrcH.Items h cs its) (hnd : (r :: cs).Nodup) :
    (match SrcH.feedM [{ name := x, left := [], right := [] }] its with
     | none => SrcH.feedH h [r] cs = none
     | some z' => ∃ h' stk t, SrcH.feedH h [r] cs = some (h', stk) ∧ closeAll z' = some t ∧ stk.head? = some r ∧
         SrcH.Repr h' t r 0 1 ∧ (SrcH.ptrs h' t r).Nodup ∧
         ∀ fuel, 2 * t.size + 1 ≤ fuel →
           ∃ h'', SrcH.defaultGrowerSimple.assemble fuel h' dg r = some (h'', none) ∧
             SrcH.readNode h'' t r 1 = growRoot (SrcH.fmtOf dg) t) := by
  have hb := SrcH.block_builds_the_model_root h r x cs its hr0 hn hl hp hc hi hnd
  cases hm : SrcH.feedM [{ name := x, left := [], right := [] }] its with
  | none => simp only [hm] at hb ⊢; exact hb
  | some z' =>
    simp only [hm] at hb ⊢
    obtain ⟨h', stk, t, hrun, hclose, hhead, hrepr, hndp⟩ := hb
    refine ⟨h', stk, t, hrun, hclose, hhead, hrepr, hndp, ?_⟩
    intro fuel hf
    obtain ⟨h'', hgrow, hrest⟩ := SrcH.assemble_root dg t h' r fuel hrepr hndp hf
    have he : SrcH.expErr dg (growRoot (SrcH.fmtOf dg) t) = none := by simp [SrcH.expErr, hv]
    rw [he] at hgrow
    exact ⟨h'', hgrow, (hrest he).2.2⟩
end Gtree

namespace Gtree
/-- `feedM` of `C01_builder_is_the_source` is the model's generator on the rows of one block: folding `addItem` — the
    function the model's `genStep` calls for a parsed row — over items below root level, from a state whose current root
    is `z`, fails exactly when `feedM` is undefined (with the format error naming a row of the block) and otherwise ends
    with `feedM`'s zipper as the current root.  So the tree `C01_builder_is_the_source` finds in the heap is the tree
    `C01_generate_roundtrip` is about. -/
theorem C01_feedM_is_the_models_generator (its : List (Nat × Bytes × Bytes)) (s : GState) (z : Zipper)
    (hs : s.cur = some z) (hk : ∀ it ∈ its, it.1 ≠ 1) :
    (match SrcH.feedM z (its.map (fun it => (it.1, it.2.1))) with
     | none => ∃ row, SrcH.addItems s its = .error (.format row) ∧ row ∈ its.map (fun it => it.2.2)
     | some z' => SrcH.addItems s its = .ok { s with cur := some z' }) :=
  SrcH.addItems_feedM its s z hs hk
end Gtree
