import Gtree.Lemmas.SourceRefines
import Gtree.Lemmas.Output
import Gtree.Model.Wasm
/-
  C15 — equivalent spellings of a document give byte-identical results.
  Every entry point of the model looks at its input only through `generate`; two valid spellings of
  one forest generate the same roots without error (round trip), hence every result is the same –
  for every output mode, branch format, extension list, writer fault, callback failure position,
  file-system state, target directory and strictness.
-/
namespace Gtree

/-- two valid spellings of one forest generate the same trees -/
theorem C15_same_trees (f : List T) (s₁ s₂ : Spelling) (h₁ : s₁.Valid (items 1 f)) (h₂ : s₂.Valid (items 1 f)) :
    (generate { doc := spell f s₁ }).err = none ∧ (generate { doc := spell f s₂ }).err = none ∧
    (generate { doc := spell f s₁ }).roots = (generate { doc := spell f s₂ }).roots := by
  obtain ⟨e1, r1⟩ := generate_spell f s₁ h₁
  obtain ⟨e2, r2⟩ := generate_spell f s₂ h₂
  exact ⟨e1, e2, by rw [r1, r2]⟩

/-- text / dry-run output through the iterator path (any job, any writer fault) -/
theorem C15_output (f : List T) (s₁ s₂ : Spelling) (h₁ : s₁.Valid (items 1 f)) (h₂ : s₂.Valid (items 1 f))
    (job : Job) (wf : WFault) :
    outputIter job { doc := spell f s₁ } wf = outputIter job { doc := spell f s₂ } wf := by
  obtain ⟨e1, e2, hr⟩ := C15_same_trees f s₁ s₂ h₁ h₂
  unfold outputIter
  simp only [e1, e2, hr, Option.isNone_none, if_true]

theorem C15_output_batch (f : List T) (s₁ s₂ : Spelling) (h₁ : s₁.Valid (items 1 f)) (h₂ : s₂.Valid (items 1 f))
    (job : Job) (all : Bool) (wf : WFault) :
    outputBatch job all { doc := spell f s₁ } wf = outputBatch job all { doc := spell f s₂ } wf := by
  obtain ⟨e1, e2, hr⟩ := C15_same_trees f s₁ s₂ h₁ h₂
  unfold outputBatch
  simp only [e1, e2, hr]

/-- JSON / YAML / TOML: the same values are handed to the encoder -/
theorem C15_formatted (f : List T) (s₁ s₂ : Spelling) (h₁ : s₁.Valid (items 1 f)) (h₂ : s₂.Valid (items 1 f)) :
    outputFormatted { doc := spell f s₁ } = outputFormatted { doc := spell f s₂ } := by
  obtain ⟨e1, e2, hr⟩ := C15_same_trees f s₁ s₂ h₁ h₂
  unfold outputFormatted
  simp only [e1, e2, hr, Option.isNone_none, if_true]

theorem C15_walk (f : List T) (s₁ s₂ : Spelling) (h₁ : s₁.Valid (items 1 f)) (h₂ : s₂.Valid (items 1 f))
    (fmt : Fmt) (failAt : Option Nat) :
    walkMd fmt { doc := spell f s₁ } failAt = walkMd fmt { doc := spell f s₂ } failAt := by
  obtain ⟨e1, e2, hr⟩ := C15_same_trees f s₁ s₂ h₁ h₂
  unfold walkMd
  simp only [e1, e2, hr]

/-- the directories made (for every file-system state, target, extension list, dry-run or not) -/
theorem C15_mkdir (f : List T) (s₁ s₂ : Spelling) (h₁ : s₁.Valid (items 1 f)) (h₂ : s₂.Valid (items 1 f))
    (fmt : Fmt) (exts : List Bytes) (target : Bytes) (dry : Bool) (fs : FS) :
    (mkdirMd fmt exts target dry { doc := spell f s₁ } fs).fs = (mkdirMd fmt exts target dry { doc := spell f s₂ } fs).fs ∧
    (mkdirMd fmt exts target dry { doc := spell f s₁ } fs).err = (mkdirMd fmt exts target dry { doc := spell f s₂ } fs).err ∧
    (mkdirMd fmt exts target dry { doc := spell f s₁ } fs).written = (mkdirMd fmt exts target dry { doc := spell f s₂ } fs).written := by
  obtain ⟨e1, e2, hr⟩ := C15_same_trees f s₁ s₂ h₁ h₂
  unfold mkdirMd
  simp only [e1, e2, hr, and_self]

/-- the verification verdict -/
theorem C15_verify (f : List T) (s₁ s₂ : Spelling) (h₁ : s₁.Valid (items 1 f)) (h₂ : s₂.Valid (items 1 f))
    (fmt : Fmt) (target : Bytes) (strict : Bool) (fs : FS) :
    verifyMd fmt target strict { doc := spell f s₁ } fs = verifyMd fmt target strict { doc := spell f s₂ } fs := by
  obtain ⟨e1, e2, hr⟩ := C15_same_trees f s₁ s₂ h₁ h₂
  unfold verifyMd
  simp only [e1, e2, hr]

end Gtree

namespace Gtree
/-- Tie to the source, re-checked on every run: the notation-learning parser (`spaces`, `sep`, `isSharpRoot`) the C15 theorems are about is `Parser.Parse` of markdown/parser.go as translated on this run. -/
theorem C15_parser_is_the_source (st : PState) (row : Bytes) :
    Src.Parser.Parse (toSrc st) row = (toSrc (parse st row).1, resSrc (parse st row).2) :=
  Parse_src st row

/-- the parser every generator starts with (`md.NewParser()` returns `&Parser{}`) is the model's initial state -/
example : toSrc {} = { isSharpRoot := false, spaces := 0, sep := [] } := rfl
end Gtree
