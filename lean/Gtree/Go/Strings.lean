import Gtree.Model.Bytes
import Gtree.Model.Path
/-
  The parts of Go's `strings` package (and the built-ins `len`, `%`, `/`, indexing) that the functions
  translated from /repo by /verif/translate use, over byte strings.  These are the *general* functions (string
  needles and cut sets, not single bytes): the translated code calls them exactly where the Go code calls the
  Go functions.  Hand-written, part of the trusted base ("modelled, not verified"); `Lemmas/GoStrings.lean`
  proves that on the arguments gtree gives them they are the byte-level helpers of `Model/Bytes.lean`.
  Go `int`/`uint` are modelled by `Int` (no overflow: every integer here is bounded by the length of a row).
-/
namespace Gtree.Go

/-- `a + b` on strings is concatenation -/
instance : Add Bytes := ⟨fun a b => a ++ b⟩

/-- `len(s)` of a string (its bytes) or of a slice -/
def len {α : Type} (s : List α) : Int := Int.ofNat s.length

/-- `a % b` (truncated, like Go; Go panics for `b = 0`, which the callers exclude) -/
def mod (a b : Int) : Int := Int.tmod a b
/-- `a / b` (truncated) -/
def div (a b : Int) : Int := Int.tdiv a b

/-- `strings.HasPrefix` -/
def strings_HasPrefix (s p : Bytes) : Bool := p.isPrefixOf s
/-- `strings.HasSuffix` -/
def strings_HasSuffix (s e : Bytes) : Bool := e.isSuffixOf s

/-- `strings.Index`: the first position at which `sep` occurs in `s` -/
def strings_Index : Bytes → Bytes → Option Nat
  | [], sep => if sep.isEmpty then some 0 else none
  | x :: xs, sep =>
    if sep.isPrefixOf (x :: xs) then some 0
    else match strings_Index xs sep with
      | some i => some (i + 1)
      | none => none

/-- `strings.Cut` -/
def strings_Cut (s sep : Bytes) : Bytes × Bytes × Bool :=
  match strings_Index s sep with
  | some i => (s.take i, s.drop (i + sep.length), true)
  | none => (s, [], false)

/-- `strings.TrimLeft(s, cutset)` for a cut set of ASCII characters (bytes below 0x80 are characters by
    themselves in UTF-8, so trimming bytes is trimming characters) -/
def strings_TrimLeft : Bytes → Bytes → Bytes
  | [], _ => []
  | x :: xs, cutset => if cutset.contains x then strings_TrimLeft xs cutset else x :: xs
/-- `strings.TrimRight(s, cutset)`, ASCII cut set -/
def strings_TrimRight (s cutset : Bytes) : Bytes := (strings_TrimLeft s.reverse cutset).reverse
/-- `strings.Trim(s, cutset)`, ASCII cut set -/
def strings_Trim (s cutset : Bytes) : Bytes := strings_TrimRight (strings_TrimLeft s cutset) cutset

/-- `strings.TrimPrefix` -/
def strings_TrimPrefix (s p : Bytes) : Bytes := if p.isPrefixOf s then s.drop p.length else s
/-- `strings.TrimSuffix` -/
def strings_TrimSuffix (s e : Bytes) : Bytes := if e.isSuffixOf s then s.take (s.length - e.length) else s

/-- leading white-space runes removed (`unicode.IsSpace`) -/
def trimLeftSpaceFuel : Nat → Bytes → Bytes
  | 0, s => s
  | fuel + 1, s =>
    let k := spaceRuneLen s
    if k == 0 then s else trimLeftSpaceFuel fuel (s.drop k)
def trimLeftSpace (s : Bytes) : Bytes := trimLeftSpaceFuel s.length s

/-- the string ends with a white-space rune of `k` bytes -/
def endsWithSpaceRune (s : Bytes) (k : Nat) : Bool :=
  k ≤ s.length && spaceRuneLen (s.drop (s.length - k)) == k && k != 0
/-- trailing white-space runes removed -/
def trimRightSpaceFuel : Nat → Bytes → Bytes
  | 0, s => s
  | fuel + 1, s =>
    if endsWithSpaceRune s 1 then trimRightSpaceFuel fuel (s.take (s.length - 1))
    else if endsWithSpaceRune s 2 then trimRightSpaceFuel fuel (s.take (s.length - 2))
    else if endsWithSpaceRune s 3 then trimRightSpaceFuel fuel (s.take (s.length - 3))
    else s
/-- `strings.TrimSpace` -/
def strings_TrimSpace (s : Bytes) : Bytes :=
  let t := trimLeftSpace s
  trimRightSpaceFuel t.length t

/-- number of bytes of the UTF-8 sequence `s` starts with (1 for an ill-formed one, as Go's decoder) -/
def runeLen : Bytes → Nat
  | [] => 0
  | b :: rest =>
    let cont (x : UInt8) : Bool := 0x80 ≤ x && x ≤ 0xBF
    if b < 0x80 then 1
    else if 0xC2 ≤ b && b ≤ 0xDF then
      match rest with | c1 :: _ => if cont c1 then 2 else 1 | _ => 1
    else if 0xE0 ≤ b && b ≤ 0xEF then
      match rest with
      | c1 :: c2 :: _ =>
        let lo : UInt8 := if b == 0xE0 then 0xA0 else 0x80
        let hi : UInt8 := if b == 0xED then 0x9F else 0xBF
        if lo ≤ c1 && c1 ≤ hi && cont c2 then 3 else 1
      | _ => 1
    else if 0xF0 ≤ b && b ≤ 0xF4 then
      match rest with
      | c1 :: c2 :: c3 :: _ =>
        let lo : UInt8 := if b == 0xF0 then 0x90 else 0x80
        let hi : UInt8 := if b == 0xF4 then 0x8F else 0xBF
        if lo ≤ c1 && c1 ≤ hi && cont c2 && cont c3 then 4 else 1
      | _ => 1
    else 1

/-- `strings.Split(s, "")`: the UTF-8 sequences of `s` -/
def explodeFuel : Nat → Bytes → List Bytes
  | _, [] => []
  | 0, s => [s]
  | fuel + 1, s =>
    let k := runeLen s
    s.take k :: explodeFuel fuel (s.drop k)

/-- number of non-overlapping occurrences of a non-empty `sep` -/
def countFuel : Nat → Bytes → Bytes → Nat
  | 0, _, _ => 0
  | fuel + 1, s, sep =>
    match strings_Index s sep with
    | some i => 1 + countFuel fuel (s.drop (i + sep.length)) sep
    | none => 0

/-- `strings.Split(s, sep)`; only the form `sep = ""` is used by the translated code -/
def strings_Split (s sep : Bytes) : List Bytes :=
  if sep.isEmpty then explodeFuel s.length s else [s]   -- other separators: not needed, not modelled

/-- `strings.Count`: for `sep = ""` the number of characters plus one -/
def strings_Count (s sep : Bytes) : Int :=
  if sep.isEmpty then Int.ofNat ((explodeFuel s.length s).length + 1)
  else Int.ofNat (countFuel s.length s sep)

/-- `strings.ContainsAny(s, chars)` for ASCII `chars` -/
def strings_ContainsAny (s chars : Bytes) : Bool := s.any (fun b => chars.contains b)

/-- `io/fs.ValidPath` (modelled in Model/Path.lean: valid UTF-8, no empty, "." or ".." element, no leading or
    trailing slash — except the path "." itself) -/
def fs_ValidPath (p : Bytes) : Bool := Gtree.fsValidPath p

/-- `xs[i]` on a slice of strings (out of range is a panic in Go; the callers exclude it) -/
def idx (xs : List Bytes) (i : Nat) : Bytes := xs.getD i []

/-- `s[i:j]` -/
def slice (s : Bytes) (i j : Nat) : Bytes := (s.take j).drop i

end Gtree.Go

namespace Gtree.Go
/-- how one round of a `for … range` body ends: fell through / `continue` (`next`), `break`, or `return` -/
inductive Ctl (σ ρ : Type) where
  | next (s : σ)
  | brk (s : σ)
  | ret (r : ρ)

/-- `for _, x := range xs { body }` with the variables the body assigns as explicit loop state -/
def forRange {α σ ρ : Type} : List α → σ → (α → σ → Ctl σ ρ) → Ctl σ ρ
  | [], s, _ => .next s
  | x :: xs, s, f =>
    match f x s with
    | .next s' => forRange xs s' f
    | .brk s' => .brk s'
    | .ret r => .ret r
end Gtree.Go
