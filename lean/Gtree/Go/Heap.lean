import Gtree.Go.Strings
/-
  What the heap-mode translation (/verif/translate/heap.go) of gtree's pointer code rests on: pointers, indexing
  a slice of pointers, bounded three-clause loops, `path.Join`.  Hand-written, part of the trusted base.
-/
namespace Gtree.Go

/-- a pointer to a heap cell; 0 is nil -/
abbrev Ptr := Nat
def nilPtr : Ptr := 0

/-- `xs[i]` on a slice of pointers (Go panics when `i` is out of range; here the result is nil) -/
def idxPtr (xs : List Ptr) (i : Int) : Ptr := if i < 0 then nilPtr else xs.getD i.toNat nilPtr

/-- `path.Join(elems...)` is the model's `pathJoin` (modelled, compared differentially) -/
def path_Join (elems : List Bytes) : Bytes := Gtree.pathJoin elems

/-- `for ; cond; { body }` (the post statement is the end of `body`), at most `fuel` rounds: `none` when the
    condition still holds after `fuel` rounds -/
def forLoop {σ ρ : Type} (fuel : Nat) (s : σ) (cond : σ → Bool) (body : σ → Ctl σ ρ) : Option (Ctl σ ρ) :=
  match fuel with
  | 0 => if cond s then none else some (.next s)
  | fuel + 1 =>
    if cond s then
      match body s with
      | .next s' => forLoop fuel s' cond body
      | .brk s' => some (.brk s')
      | .ret r => some (.ret r)
    else some (.next s)

end Gtree.Go

namespace Gtree.Go
/-- `l.Back()` of the list of the stack of open nodes (kept root first): the node in the last element, nil when
    the list is empty -/
def listBack (l : List Ptr) : Ptr := l.getLastD nilPtr
/-- `l.Remove(l.Back())` -/
def listDropBack (l : List Ptr) : List Ptr := l.dropLast
end Gtree.Go

namespace Gtree.Go
/-- `c.next()` of a counter (counter.go: `c.n += 1; return c.n` under the mutex): the new count, twice -/
def counterNext (n : Int) : Int × Int := (n + 1, n + 1)
end Gtree.Go

namespace Gtree.Go
/-- the indices of `for i := range xs` -/
def indices {α : Type} (xs : List α) : List Int := (List.range xs.length).map Int.ofNat
end Gtree.Go

namespace Gtree.Go
/-- `m[k] = struct{}{}` on a `map[string]struct{}`: the set as the list of its elements in insertion order -/
def setInsert (s : List Bytes) (x : Bytes) : List Bytes := if s.contains x then s else s ++ [x]
end Gtree.Go
