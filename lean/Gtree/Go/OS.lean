import Gtree.Generated.Source
import Gtree.Model.FS
import Gtree.Model.Spread
/-
  The operating-system calls of the pointer code translated in heap mode (/verif/translate/heap.go), as operations of
  the finite-map file-system model (`Model/FS.lean`): `os.Stat`, `os.IsNotExist`, `os.MkdirAll`, `os.Create`,
  `filepath.Join`.  Hand-written, part of the trusted base ("modelled, not verified"; compared differentially).
-/
namespace Gtree.Go
open Gtree

/-- `_, err := os.Stat(p)` -/
def os_Stat (fs : FS) (p : Bytes) : Option Src.Err :=
  match fs.stat p with
  | .ok _ => none
  | .error e => some (.os e)

/-- `os.IsNotExist(err)` -/
def os_IsNotExist : Option Src.Err → Bool
  | some (.os .notExist) => true
  | _ => false

/-- `os.MkdirAll(p, perm)` -/
def os_MkdirAll (fs : FS) (p : Bytes) : FS × Option Src.Err :=
  ((fs.mkdirAll p).1, (fs.mkdirAll p).2.map .os)

/-- `f, err := os.Create(p)` (the file handle is not represented; closing it does not fail in the model) -/
def os_Create (fs : FS) (p : Bytes) : FS × Option Src.Err :=
  ((fs.create p).1, (fs.create p).2.map .os)

/-- `filepath.Join(elems...)` on a slash-separated system is the model's `filepathJoin` -/
def filepath_Join (elems : List Bytes) : Bytes := Gtree.filepathJoin elems

/-- the caller's `io.Writer` as the model's writer with a fault oracle (`WFault`): how many `Write`s it has seen and
    what it has accepted so far -/
structure Writer where
  fault : WFault
  calls : Nat
  out : Bytes

/-- `_, err := fmt.Fprint(w, s)`: one `Write` of the bytes of `s`; the writer's fault index decides -/
def fmt_Fprint (w : Writer) (s : Bytes) : Writer × Option Src.Err :=
  if w.fault.failAt == some w.calls then
    ({ w with calls := w.calls + 1, out := w.out ++ s.take w.fault.short }, some Src.Err.writer)
  else ({ w with calls := w.calls + 1, out := w.out ++ s }, none)

/-- `c.Sprint(s)` of fatih/color with colour switched off (NO_COLOR, a writer that is not a terminal): the text -/
def color_Sprint (s : Bytes) : Bytes := s

/-- `%d` of a counter's value -/
def fmt_d (n : Int) : Bytes := Gtree.natBytes n.toNat

end Gtree.Go
