import Gtree.Model.Tree
/-
  SPECIFICATION: "equally named siblings under one parent are a single node".
  Merging a list of sibling trees: the first occurrence of a name keeps its place among the
  siblings; every later sibling with that name contributes its children to it (recursively merged
  the same way). Roots are never merged with each other.
-/
namespace Gtree

/-- replace the first sibling called `n` by `f` of it; `none` if there is none -/
def updateFirst (n : Bytes) (f : T → T) : List T → Option (List T)
  | [] => none
  | t :: ts =>
    if t.name == n then some (f t :: ts)
    else match updateFirst n f ts with
      | none => none
      | some ts' => some (t :: ts')

mutual
/-- merge one more sibling `t` into the already merged siblings `acc` -/
def absorb (acc : List T) : T → List T
  | .mk n ks =>
    match updateFirst n (fun c => .mk c.name (absorbAll c.kids ks)) acc with
    | some acc' => acc'
    | none => acc ++ [.mk n (absorbAll [] ks)]
/-- merge the siblings `ks`, left to right, into `acc` -/
def absorbAll (acc : List T) : List T → List T
  | [] => acc
  | t :: ts => absorbAll (absorb acc t) ts
end

/-- the children of one parent, merged -/
def mergeKids (ks : List T) : List T := absorbAll [] ks

/-- a root with everything below it merged -/
def mergeRoot : T → T
  | .mk n ks => .mk n (mergeKids ks)

end Gtree
