import Gtree.Model.Tree
/-
  SPECIFICATION (C01): the tree-drawing rule, written top-down the way the property states it.
  A root's line is its name. Any other line is: for each ancestor strictly below the root, taken
  top-down, that ancestor's continuation string (the last-node one if the ancestor is its parent's
  last child, otherwise the intermediate one) – accumulated in `pre` –, then the node's own
  connector chosen the same way, one space, the name. One line per node, depth-first pre-order.
-/
namespace Gtree

def specKids (f : Fmt) (pre : Bytes) : List T → List Bytes
  | [] => []
  | [T.mk n ks] => (pre ++ f.lastD ++ [sp] ++ n) :: specKids f (pre ++ f.lastI) ks
  | T.mk n ks :: k2 :: rest =>
      ((pre ++ f.midD ++ [sp] ++ n) :: specKids f (pre ++ f.midI) ks) ++ specKids f pre (k2 :: rest)

def specRoot (f : Fmt) : T → List Bytes
  | T.mk n ks => n :: specKids f [] ks

/-- the whole text output: every line terminated by LF, roots in input order -/
def renderSpec (f : Fmt) (roots : List T) : Bytes :=
  ((roots.map (specRoot f)).flatten.map (fun l => l ++ [lf])).flatten

end Gtree
