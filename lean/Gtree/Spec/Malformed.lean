import Gtree.Model.Bytes
/-
  C02's vocabulary, written the way the property is written: what makes a row of a document malformed.

  A row is judged against the *notation* the rows before it have established:
    * whether a `#` heading has been read (list items then sit one level deeper),
    * the indentation unit — the width of the first indented item's indentation,
    * the blank (space or tab) the indentation uses since the last unindented item,
    * the level of the item before it (0: no root yet).
  The five classes of malformation are the five the property names:
    noBullet   – no bullet symbol (`-`, `*`, `+`) right after the indentation,
    emptyText  – nothing after the bullet (or after the `#`s of a heading),
    badIndent  – the indentation mixes tabs and spaces, is written in the other blank than the document's,
                 or is not a whole multiple of the unit,
    jump       – the item is nested more than one level deeper than the item before it,
    orphan     – an item below the root level before the first root.
  No parser state, no attempts, no side effects: one pass over the row's bytes.
-/
namespace Gtree

structure Notation where
  heading : Bool := false
  unit    : Nat := 0
  blank   : Option UInt8 := none
  level   : Nat := 0
deriving Repr, DecidableEq

inductive Malformation where
  | noBullet | emptyText | badIndent | jump | orphan
deriving Repr, DecidableEq

def isIndentByte (b : UInt8) : Bool := b == sp || b == tab
def isBulletByte (b : UInt8) : Bool := b == hy || b == ast || b == pls

/-- the blanks a row starts with -/
def indentOf : Bytes → Bytes
  | [] => []
  | b :: rest => if isIndentByte b then b :: indentOf rest else []

/-- the row without them -/
def afterIndent : Bytes → Bytes
  | [] => []
  | b :: rest => if isIndentByte b then afterIndent rest else b :: rest

/-- where an item of level `lvl` goes: below a root that exists, at most one level deeper than the item before -/
def place (n : Notation) (lvl : Nat) : Except Malformation Notation :=
  if lvl == 1 then .ok { n with level := 1 }
  else if n.level == 0 then .error .orphan
  else if n.level + 1 < lvl then .error .jump
  else .ok { n with level := lvl }

/-- Judge one row. `none`: a blank row (ignored). `some (.error m)`: malformed, of class `m`.
    `some (.ok n')`: a well-formed item; `n'` is the notation the following rows are judged against. -/
def judge (n : Notation) (row : Bytes) : Option (Except Malformation Notation) :=
  if isBlank row then none
  else match row with
  | 0x23 :: after =>
    -- a heading: a root, whatever came before; from now on list items are one level deeper
    if (trimB sp (trimLeftB shp after)).isEmpty then some (.error .emptyText)
    else some (.ok { n with heading := true, level := 1 })
  | _ =>
    match afterIndent row with
    | [] => some (.error .noBullet)
    | b :: text =>
      if !isBulletByte b then some (.error .noBullet)
      else
        let ind := indentOf row
        let deeper := if n.heading then 1 else 0
        match ind with
        | [] =>
          -- an unindented item: level 1 (2 under headings); the indentation blank is open again
          if (trimPrefixB sp text).isEmpty then some (.error .emptyText)
          else some (place { n with blank := none } (1 + deeper))
        | c :: _ =>
          let d := n.blank.getD c                     -- the document's blank, or this row's if open
          if !(ind.all (· == d)) then some (.error .badIndent)
          else
            let m := ind.length
            let unit := if n.unit == 0 then m else n.unit
            if 2 ≤ unit && m % unit != 0 then some (.error .badIndent)
            else if (trimPrefixB sp text).isEmpty then some (.error .emptyText)
            else some (place { n with blank := some d, unit := unit } (m / unit + 1 + deeper))

/-- the first malformed row of a document and its class -/
def firstMalformed : Notation → List Bytes → Option (Bytes × Malformation)
  | _, [] => none
  | n, r :: rs =>
    match judge n r with
    | none => firstMalformed n rs
    | some (.error m) => some (r, m)
    | some (.ok n') => firstMalformed n' rs

/-- some row of the document is malformed -/
def Malformed (rows : List Bytes) : Prop := (firstMalformed {} rows).isSome = true

end Gtree
