import Gtree.Model.Tree
/-
  SPECIFICATION: the notation family of C01 / C15 — how a forest is written as a Markdown bullet list.
  A spelling chooses: the indent character (space or tab) and a fixed number ≥ 1 of them per level,
  the bullet symbol of every item line ('-', '*' or '+'), whether roots are written as `# ` headings
  (list rows then start one level down), white-space-only rows inserted before any item line,
  LF or CRLF line ends, and whether the last line is terminated.
-/
namespace Gtree

/-- pre-order items (hierarchy, name) of the sibling list `ks` whose members have hierarchy `d` -/
def items (d : Nat) : List T → List (Nat × Bytes)
  | [] => []
  | .mk n ks :: rest => (d, n) :: items (d + 1) ks ++ items d rest

structure Spelling where
  c       : UInt8              -- indent character
  unit    : Nat                -- copies of it per level
  bullet  : Nat → UInt8        -- bullet symbol of the i-th item line
  sharp   : Bool               -- roots as "# name"
  blanks  : Nat → List Bytes   -- white-space-only rows written before the i-th item line
  crlf    : Bool
  finalNL : Bool

/-- a list row: `k` levels of indentation, the bullet, one space, the name -/
def listRow (s : Spelling) (i k : Nat) (n : Bytes) : Bytes :=
  List.replicate (k * s.unit) s.c ++ s.bullet i :: sp :: n

/-- the row of the i-th item line, an item of hierarchy `h` (roots: 1) called `n` -/
def rowOf (s : Spelling) (i h : Nat) (n : Bytes) : Bytes :=
  if s.sharp then (if h = 1 then shp :: sp :: n else listRow s i (h - 2) n)
  else listRow s i (h - 1) n

/-- the rows of the document, item lines numbered from `i` -/
def spellRows (s : Spelling) : Nat → List (Nat × Bytes) → List Bytes
  | _, [] => []
  | i, (h, n) :: rest => s.blanks i ++ rowOf s i h n :: spellRows s (i + 1) rest

/-- line ends -/
def eol (s : Spelling) : Bytes := if s.crlf then [cr, lf] else [lf]

/-- rows joined into the document: every row but the last is terminated; the last one iff `finalNL` -/
def joinRows (s : Spelling) : List Bytes → Bytes
  | [] => []
  | [r] => if s.finalNL then r ++ eol s else r
  | r :: r2 :: rs => r ++ eol s ++ joinRows s (r2 :: rs)

/-- the document spelling the forest `f` -/
def spell (f : List T) (s : Spelling) : Bytes := joinRows s (spellRows s 0 (items 1 f))

/-- a name as it can be written and read back -/
structure NameOk (s : Spelling) (h : Nat) (n : Bytes) : Prop where
  nonempty : n ≠ []
  noLF : lf ∉ n
  noTrailCR : n.getLast? ≠ some cr
  /-- a heading root is trimmed of spaces on both sides -/
  sharpHead : s.sharp = true → h = 1 → n.head? ≠ some sp
  sharpLast : s.sharp = true → h = 1 → n.getLast? ≠ some sp

/-- what makes a spelling of the items `its` representable -/
structure Spelling.Valid (s : Spelling) (its : List (Nat × Bytes)) : Prop where
  hc : s.c = sp ∨ s.c = tab
  hunit : 1 ≤ s.unit
  hbullet : ∀ i, s.bullet i = hy ∨ s.bullet i = ast ∨ s.bullet i = pls
  names : ∀ it ∈ its, NameOk s it.1 it.2
  /-- inserted rows are white-space only (in the sense of Go's `strings.TrimSpace`), one line each -/
  hblank : ∀ i, ∀ b ∈ s.blanks i, isBlank b = true ∧ lf ∉ b ∧ b.getLast? ≠ some cr
  /-- every row fits `bufio.Scanner`'s token limit -/
  hshort : ∀ i, ∀ r ∈ spellRows s i its, r.length + 1 < maxToken

end Gtree
