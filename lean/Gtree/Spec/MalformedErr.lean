import Gtree.Spec.Malformed
import Gtree.Model.Generate
namespace Gtree
/-- the error the generator reports for a malformed row of a given class -/
def toGErr : Bytes × Malformation → GErr
  | (r, .noBullet) => .format r
  | (r, .badIndent) => .format r
  | (r, .jump) => .format r
  | (_, .emptyText) => .emptyText
  | (_, .orphan) => .nilStack
end Gtree
