import Gtree.Model.Generate
import Gtree.Model.Spread
import Gtree.Model.Mkdir
/-
  One function per public entry point (simple mode), as composed in simple_tree.go /
  tree_handler.go / tree_handler_programmably.go.
-/
namespace Gtree

inductive Err where
  | gen (e : GErr)
  | val (e : VErr)
  | write
  | mk (e : MkErr)
  | vf (e : VfErr)
  | nilNode
  | notRoot
  | callback
deriving Repr, DecidableEq, BEq

structure Out where
  written : Bytes
  err     : Option Err
deriving Repr

/-- per-root printing job: validate (if enabled) then write its chunks -/
structure Job where
  validate : Bool
  chunks   : T → List Bytes
  visits   : T → List Visit

/-- run the jobs root by root, as the iterator pipeline `generateIter → growIter → spreadIter` does:
    a root is validated, then printed, before the next one is looked at. `i` is the index of the next write. -/
def runRoots (job : Job) (wf : WFault) : List T → Nat → Bytes × Option Err × Nat
  | [], i => ([], none, i)
  | r :: rs, i =>
    match (if job.validate then validateVisits (job.visits r) else none) with
    | some e => ([], some (.val e), i)
    | none =>
      let cs := job.chunks r
      let (acc, failed) := emit wf cs i
      if failed then (acc, some .write, i + cs.length)
      else
        let (rest, e, j) := runRoots job wf rs (i + cs.length)
        (acc ++ rest, e, j)

def textJob (f : Fmt) : Job := { validate := false, chunks := textChunks f, visits := growRoot f }
/-- dry-run: validation on, one write per root (through a `bufio.Writer` flushed per root) -/
def dryJob (f : Fmt) (exts : List Bytes) : Job :=
  { validate := true, chunks := fun r => [dryRunReport f exts r], visits := growRoot f }

/-- `OutputFromMarkdown` (simple mode, iterator path), text or dry-run -/
def outputIter (job : Job) (inp : Input) (wf : WFault) : Out :=
  let g := generate inp
  let roots := if g.err.isNone then g.roots else g.done
  match runRoots job wf roots 0 with
  | (w, some e, _) => ⟨w, some e⟩
  | (w, none, _) => ⟨w, g.err.map .gen⟩

/-- all-or-nothing composition `generate(); grow(); spread()` (WithNoUseIterOfSimpleOutput, wasm, mkdir dry-run) -/
def outputBatch (job : Job) (allAtOnce : Bool) (inp : Input) (wf : WFault) : Out :=
  let g := generate inp
  match g.err with
  | some e => ⟨[], some (.gen e)⟩
  | none =>
    let roots := g.roots
    match (if job.validate then validateVisits (roots.map job.visits).flatten else none) with
    | some e => ⟨[], some (.val e)⟩
    | none =>
      let cs := (roots.map job.chunks).flatten
      let cs := if allAtOnce then (if cs.isEmpty then [] else [cs.flatten]) else cs
      let (acc, failed) := emit wf cs 0
      ⟨acc, if failed then some .write else none⟩

/-- `OutputFromRoot` text: `growAndSpread` (no validation, dry-run ignored) -/
def outputRootText (f : Fmt) (root : T) (wf : WFault) : Out :=
  let (acc, failed) := emit wf (textChunks f root) 0
  ⟨acc, if failed then some .write else none⟩

/-- formatted output: the values handed to `Encode`, one per root, in order; and the error.
    The iterator path encodes every completed root before a generation error surfaces. -/
def outputFormatted (inp : Input) : List FNode × Option Err :=
  let g := generate inp
  let roots := if g.err.isNone then g.roots else g.done
  (roots.map toFormatted, g.err.map .gen)

/-- `WalkFromMarkdown`: `generate(); grow(); walk()` with a callback failing at its `failAt`-th call -/
def walkVisits (vs : List Visit) (failAt : Option Nat) : List Visit × Option Err :=
  match failAt with
  | none => (vs, none)
  | some k => if k < vs.length then (vs.take (k + 1), some .callback) else (vs, none)

def walkMd (f : Fmt) (inp : Input) (failAt : Option Nat) : List Visit × Option Err :=
  let g := generate inp
  match g.err with
  | some e => ([], some (.gen e))
  | none => walkVisits (g.roots.map (growRoot f)).flatten failAt

def walkRoot (f : Fmt) (root : T) (failAt : Option Nat) : List Visit × Option Err :=
  walkVisits (growRoot f root) failAt

/-- `WalkIterFromRoot` consumed by a loop that breaks after `k` items (`none`: runs to the end) -/
def walkIterRoot (f : Fmt) (root : T) (breakAfter : Option Nat) : List Visit :=
  match breakAfter with
  | none => growRoot f root
  | some k => (growRoot f root).take k

structure MkOut where
  fs      : FS
  written : Bytes
  err     : Option Err

/-- `MkdirFromMarkdown` / `MkdirFromRoot` on already generated roots: validate everything, then
    either print the dry-run report (nothing created) or create. -/
def mkdirRootsApi (f : Fmt) (exts : List Bytes) (target : Bytes) (dry : Bool) (roots : List T) (fs : FS) : MkOut :=
  let vss := roots.map (growRoot f)
  match validateVisits vss.flatten with
  | some e => ⟨fs, [], some (.val e)⟩
  | none =>
    if dry then ⟨fs, (roots.map (dryRunReport f exts)).flatten, none⟩
    else match mkdirRoots fs target exts vss with
      | (fs', some e) => ⟨fs', [], some (.mk e)⟩
      | (fs', none) => ⟨fs', [], none⟩

def mkdirMd (f : Fmt) (exts : List Bytes) (target : Bytes) (dry : Bool) (inp : Input) (fs : FS) : MkOut :=
  let g := generate inp
  match g.err with
  | some e => ⟨fs, [], some (.gen e)⟩
  | none => mkdirRootsApi f exts target dry g.roots fs

def verifyRootsApi (f : Fmt) (target : Bytes) (strict : Bool) (roots : List T) (fs : FS) : Option Err :=
  let vss := roots.map (growRoot f)
  match validateVisits vss.flatten with
  | some e => some (.val e)
  | none => (verifyRoots fs target strict vss).map .vf

def verifyMd (f : Fmt) (target : Bytes) (strict : Bool) (inp : Input) (fs : FS) : Option Err :=
  let g := generate inp
  match g.err with
  | some e => some (.gen e)
  | none => verifyRootsApi f target strict g.roots fs

end Gtree
