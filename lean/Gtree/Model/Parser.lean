import Gtree.Model.Bytes
/-
  Model of markdown/parser.go (`Parser.Parse`, `separateRow`, `validateSpaces`, `calculateHierarchy`).
  The parser is a state machine over rows; its state is (`isSharpRoot`, `spaces`, `sep`).
  Failed attempts inside `separateRow` keep their side effects on the state, as in the Go code.
-/
namespace Gtree

structure PState where
  sharp  : Bool := false
  spaces : Nat := 0
  sep    : Option UInt8 := none      -- Go: "" / " " / "\t"
deriving Repr, DecidableEq, BEq

inductive PErr where
  | blank | emptyText | incorrect
deriving Repr, DecidableEq, BEq

/-- the three list symbols, in the order `listSymbols` tries them -/
def listSymbols : List UInt8 := [hy, ast, pls]

def isSymbolByte (b : UInt8) : Bool := b == shp || b == hy || b == ast || b == pls

/-- One iteration of the `for _, symbol := range listSymbols` loop in `separateRow`.
    Returns the new state and `some (spaceCount, after)` when the iteration returns successfully,
    `none` when it `continue`s (with `err = ErrIncorrectFormat`). -/
def attempt (st : PState) (row : Bytes) (symbol : UInt8) : PState × Option (Nat × Bytes) :=
  match cut symbol row with
  | none => (st, none)
  | some (before, after) =>
    match before with
    | [] =>
      -- p.sep = "" ; spaceCount = 0 ; validateSpaces(0) always passes
      ({ st with sep := none }, some (0, after))
    | c :: _ =>
      if c == sp || c == tab then
        let st1 : PState := if st.sep.isNone then { st with sep := some c } else st
        let sepc := st1.sep.getD c
        let spaceCount := countB sepc before
        if spaceCount != before.length then (st1, none)
        else
          let st2 : PState := if spaceCount > 0 && st1.spaces == 0 then { st1 with spaces := spaceCount } else st1
          if st2.spaces ≤ 1 then (st2, some (spaceCount, after))
          else if spaceCount % st2.spaces != 0 then (st2, none)
          else (st2, some (spaceCount, after))
      else (st, none)

def separateRowAux (st : PState) (row : Bytes) : List UInt8 → PState × Option (Nat × Bytes)
  | [] => (st, none)
  | s :: ss =>
    match attempt st row s with
    | (st', some r) => (st', some r)
    | (st', none) => separateRowAux st' row ss

def separateRow (st : PState) (row : Bytes) : PState × Option (Nat × Bytes) :=
  separateRowAux st row listSymbols

def calculateHierarchy (st : PState) (spaceCount : Nat) : Nat :=
  let h := if st.spaces == 0 || st.sep.isNone then spaceCount + 1 else spaceCount / st.spaces + 1
  if st.sharp then h + 1 else h

/-- `Parser.Parse`: new state and either an error or (hierarchy, text). -/
def parse (st : PState) (row : Bytes) : PState × Except PErr (Nat × Bytes) :=
  if isBlank row then (st, .error .blank)
  else match row with
  | 0x23 :: after =>
    let st' := { st with sharp := true }
    let text := trimB sp (trimLeftB shp after)
    if text.isEmpty then (st', .error .emptyText) else (st', .ok (1, text))
  | _ =>
    match separateRow st row with
    | (st', none) => (st', .error .incorrect)
    | (st', some (spaceCount, afterText)) =>
      let text := trimPrefixB sp afterText
      if text.isEmpty then (st', .error .emptyText)
      else (st', .ok (calculateHierarchy st' spaceCount, text))

end Gtree
