/-
  Byte-level helpers: the parts of Go's `strings`, `bufio.ScanLines` that gtree uses,
  modelled over `List UInt8` (Go strings are byte strings).
  Core-only (no Mathlib) so that the line-protocol driver can be compiled natively.
-/
namespace Gtree

abbrev Bytes := List UInt8

def sp  : UInt8 := 0x20
def tab : UInt8 := 0x09
def lf  : UInt8 := 0x0A
def cr  : UInt8 := 0x0D
def hy  : UInt8 := 0x2D   -- '-'
def ast : UInt8 := 0x2A   -- '*'
def pls : UInt8 := 0x2B   -- '+'
def shp : UInt8 := 0x23   -- '#'
def slash : UInt8 := 0x2F -- '/'
def dot : UInt8 := 0x2E   -- '.'

/-- `strings.Cut(s, string(b))` for a one-byte separator. -/
def cut (b : UInt8) : Bytes → Option (Bytes × Bytes)
  | [] => none
  | x :: xs =>
    if x == b then some ([], xs)
    else match cut b xs with
      | none => none
      | some (l, r) => some (x :: l, r)

/-- `strings.Count(s, string(b))` for a one-byte needle. -/
def countB (b : UInt8) : Bytes → Nat
  | [] => 0
  | x :: xs => (if x == b then 1 else 0) + countB b xs

/-- `strings.TrimLeft(s, string(b))`. -/
def trimLeftB (b : UInt8) : Bytes → Bytes
  | [] => []
  | x :: xs => if x == b then trimLeftB b xs else x :: xs

/-- `strings.TrimRight(s, string(b))`. -/
def trimRightB (b : UInt8) (s : Bytes) : Bytes := (trimLeftB b s.reverse).reverse

/-- `strings.Trim(s, string(b))`. -/
def trimB (b : UInt8) (s : Bytes) : Bytes := trimRightB b (trimLeftB b s)

/-- `strings.TrimPrefix(s, string(b))`. -/
def trimPrefixB (b : UInt8) : Bytes → Bytes
  | [] => []
  | x :: xs => if x == b then xs else x :: xs

/-- `strings.HasSuffix(s, e)`. -/
def hasSuffix (s e : Bytes) : Bool := e.isSuffixOf s

/-- `strings.TrimSuffix(s, e)`. -/
def trimSuffix (s e : Bytes) : Bytes :=
  if e.isSuffixOf s then s.take (s.length - e.length) else s

/-- Length (in bytes) of the white-space rune (per Go's `unicode.IsSpace`) that `s` starts with,
    or 0 when `s` does not start with one. All of these are well-formed UTF-8 sequences, so an
    ill-formed prefix is simply "not white space" (Go decodes it as U+FFFD, width 1). -/
def spaceRuneLen : Bytes → Nat
  | 0x09 :: _ | 0x0A :: _ | 0x0B :: _ | 0x0C :: _ | 0x0D :: _ | 0x20 :: _ => 1
  | 0xC2 :: 0x85 :: _ | 0xC2 :: 0xA0 :: _ => 2
  | 0xE1 :: 0x9A :: 0x80 :: _ => 3                                    -- U+1680
  | 0xE2 :: 0x80 :: b :: _ =>
      if (0x80 ≤ b && b ≤ 0x8A) || b == 0xA8 || b == 0xA9 || b == 0xAF then 3 else 0  -- U+2000..200A, 2028, 2029, 202F
  | 0xE2 :: 0x81 :: 0x9F :: _ => 3                                    -- U+205F
  | 0xE3 :: 0x80 :: 0x80 :: _ => 3                                    -- U+3000
  | _ => 0

/-- `len(strings.TrimSpace(row)) == 0`: the row consists of white-space runes only. -/
def isBlankFuel : Nat → Bytes → Bool
  | _, [] => true
  | 0, _ => false
  | fuel + 1, s =>
    let k := spaceRuneLen s
    if k == 0 then false else isBlankFuel fuel (s.drop k)

def isBlank (s : Bytes) : Bool := isBlankFuel s.length s

/-- Split at LF (the LF is dropped). The last element is the unterminated tail (possibly empty). -/
def splitLF : Bytes → List Bytes
  | [] => [[]]
  | x :: xs =>
    match splitLF xs with
    | [] => [[]]             -- unreachable
    | l :: ls => if x == lf then [] :: l :: ls else (x :: l) :: ls

/-- drop one trailing CR (`bufio.dropCR`). -/
def dropCR (s : Bytes) : Bytes :=
  match s.getLast? with
  | some c => if c == cr then s.dropLast else s
  | none => s

/-- The rows `bufio.Scanner` with `ScanLines` delivers for the whole input:
    every LF-terminated line and, if non-empty, the unterminated tail; a trailing CR is dropped. -/
def rawLines (doc : Bytes) : List Bytes :=
  let parts := splitLF doc
  let body := parts.dropLast
  let tail := parts.getLast?.getD []
  if tail.isEmpty then body else body ++ [tail]

def maxToken : Nat := 65536

/-- Result of scanning: rows delivered before the scanner stopped, and whether it stopped with `ErrTooLong`. -/
structure Scanned where
  rows : List Bytes
  tooLong : Bool
deriving Repr

/-- `bufio.Scanner` semantics for gtree's use: rows in order; the first row of `maxToken` or more
    bytes (CR included, LF excluded) stops the scan with `bufio.ErrTooLong`. -/
def scanLinesAux : List Bytes → List Bytes → Scanned
  | [], acc => ⟨acc.reverse, false⟩
  | l :: ls, acc => if l.length ≥ maxToken then ⟨acc.reverse, true⟩ else scanLinesAux ls (dropCR l :: acc)

def scanLines (doc : Bytes) : Scanned := scanLinesAux (rawLines doc) []

end Gtree
