import Gtree.Model.Api
import Gtree.Model.Json
/-
  Text codec of the line protocol between the Go harness and the model driver.
  Not part of the model proper: hex encoding of byte strings, lists, trees, file systems,
  and canonical rendering of results.
-/
namespace Gtree.Codec
open Gtree

def hexDigit (n : UInt8) : Char :=
  if n < 10 then Char.ofNat (48 + n.toNat) else Char.ofNat (87 + n.toNat)

def hexOf (b : Bytes) : String :=
  if b.isEmpty then "-" else String.ofList (b.flatMap (fun (x : UInt8) => [hexDigit (x >>> 4), hexDigit (x &&& 0xF)]))

def unhexChar (c : Char) : Option UInt8 :=
  if '0' ≤ c && c ≤ '9' then some (c.toNat - 48).toUInt8
  else if 'a' ≤ c && c ≤ 'f' then some (c.toNat - 87).toUInt8
  else none

def unhexChars : List Char → Option Bytes
  | [] => some []
  | [_] => none
  | a :: b :: rest => do
    let x ← unhexChar a
    let y ← unhexChar b
    let r ← unhexChars rest
    pure ((x <<< 4 ||| y) :: r)

def unhex (s : String) : Option Bytes :=
  if s == "-" then some [] else unhexChars s.toList

def unhexList (s : String) : Option (List Bytes) :=
  if s == "_" then some [] else (s.splitOn ",").mapM unhex

def hexList (l : List Bytes) : String :=
  if l.isEmpty then "_" else ",".intercalate (l.map hexOf)

def sortStrings (l : List String) : List String := l.mergeSort (fun a b => a ≤ b)

/-- trees: `(name child child …)` with hex names, no spaces -/
partial def parseTree : List Char → Option (T × List Char)
  | '(' :: cs =>
    let nameChars := cs.takeWhile (fun c => c != '(' && c != ')')
    let rest := cs.dropWhile (fun c => c != '(' && c != ')')
    match unhex (String.ofList nameChars) with
    | none => none
    | some n =>
      let rec kids (acc : List T) : List Char → Option (List T × List Char)
        | ')' :: r => some (acc.reverse, r)
        | '(' :: r => match parseTree ('(' :: r) with
          | some (t, r') => kids (t :: acc) r'
          | none => none
        | _ => none
      match kids [] rest with
      | some (ks, r) => some (.mk n ks, r)
      | none => none
  | _ => none

/-- a name as a sequence of Unicode scalar values, if it is valid UTF-8 -/
def charsOf (b : Bytes) : Option (List Char) :=
  (String.fromUTF8? (ByteArray.mk b.toArray)).map String.toList

/-- the formatted tree over scalar values (none: some name is not valid UTF-8) -/
partial def ctOf : FNode → Option Json.CT
  | .mk v ks => do
    let v ← charsOf v
    let ks ← ks.mapM ctOf
    pure (.mk v ks)

/-- the JSON text of a forest as bytes, in hex -/
def jsonOf (fs : List FNode) : String :=
  match fs.mapM ctOf with
  | none => "invalid-utf8"
  | some cts => hexOf (String.ofList (Json.encodeRoots cts)).toUTF8.toList

partial def showCT : Json.CT → String
  | .mk v ks => "(" ++ hexOf (String.ofList v).toUTF8.toList ++ String.join (ks.map showCT) ++ ")"

/-- read a JSON stream (bytes) with the model's reader: the forest it denotes, or why not -/
def jsonRead (b : Bytes) : String :=
  match charsOf b with
  | none => "invalid-utf8"
  | some cs =>
    match (Json.decodeStream cs).bind Json.readAll with
    | none => "rejected"
    | some ts => if ts.isEmpty then "_" else String.join (ts.map showCT)

def treeOf (s : String) : Option T :=
  match parseTree s.toList with
  | some (t, []) => some t
  | _ => none

partial def showF : FNode → String
  | .mk v ks => "(" ++ hexOf v ++ String.join (ks.map showF) ++ ")"

partial def showT : T → String
  | .mk v ks => "(" ++ hexOf v ++ String.join (ks.map showT) ++ ")"

def showFErr : FErr → String
  | .notExist => "notexist" | .notDir => "notdir" | .nameTooLong => "toolong" | .invalid => "invalid" | .isDir => "isdir"

def showErr : Option Err → String
  | none => "nil"
  | some (.gen .emptyText) => "emptytext"
  | some (.gen (.format r)) => "format:" ++ hexOf r
  | some (.gen .nilStack) => "nilstack"
  | some (.gen .tooLong) => "toolong"
  | some (.gen .reader) => "reader"
  | some (.val (.invalidName n)) => "invalidname:" ++ hexOf n
  | some (.val (.invalidPath p)) => "invalidpath:" ++ hexOf p
  | some .write => "write"
  | some (.mk .exist) => "exist"
  | some (.mk (.os e)) => "os:" ++ showFErr e
  | some (.vf (.os e)) => "os:" ++ showFErr e
  | some (.vf (.diff strict d)) =>
    "verify:" ++
      (if strict then ",".intercalate (sortStrings (d.extra.map hexOf)) else "") ++ ":" ++
      ",".intercalate (sortStrings (d.missing.map hexOf))
  | some .nilNode => "nilnode"
  | some .notRoot => "notroot"
  | some .callback => "callback"

def showVisit (v : Visit) : String :=
  hexOf v.name ++ "|" ++ hexOf v.branch ++ "|" ++ toString v.level ++ "|" ++ hexOf v.path ++ "|" ++
    (if v.hasChild then "1" else "0") ++ "|" ++ hexOf v.row

def showVisits (vs : List Visit) : String :=
  if vs.isEmpty then "_" else ";".intercalate (vs.map showVisit)

def showKind : Kind → String
  | .dir => "d"
  | .file n => "f" ++ toString n

def showFS (fs : FS) : String :=
  if fs.isEmpty then "_" else ",".intercalate (sortStrings (fs.map (fun e => hexOf e.1 ++ ":" ++ showKind e.2)))

def parseKind (s : String) : Option Kind :=
  if s == "d" then some .dir
  else match s.toList with
    | 'f' :: ds => (String.ofList ds).toNat?.map Kind.file
    | _ => none

def parseFS (s : String) : Option FS :=
  if s == "_" then some [] else
  (s.splitOn ",").mapM (fun e => match e.splitOn ":" with
    | [p, k] => do
      let p ← unhex p
      let k ← parseKind k
      pure (p, k)
    | _ => none)

def fmtOf (l : List Bytes) : Option Fmt :=
  match l with
  | [a, b, c, d] => some { lastD := a, lastI := b, midD := c, midI := d }
  | _ => none

def optNat (s : String) : Option (Option Nat) :=
  if s == "n" then some none else s.toNat?.map some

end Gtree.Codec
