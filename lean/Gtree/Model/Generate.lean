import Gtree.Model.Parser
import Gtree.Model.Tree
/-
  Model of node_generator.go / root_generator.go / stack.go: rows → roots.
  Go keeps a stack of pointers to the open nodes (a root-to-node path) into a mutable tree;
  the functional counterpart is a zipper: one frame per open node holding the children to the
  left and to the right of the next deeper open node.
-/
namespace Gtree

structure Frame where
  name  : Bytes
  left  : List T
  right : List T
deriving Repr

/-- deepest open node first; the last frame is the root -/
abbrev Zipper := List Frame

def Frame.close (f : Frame) : T := .mk f.name (f.left ++ f.right)

/-- pop the deepest open node and hang it into its parent (which becomes the deepest open node) -/
def upOne : Zipper → Zipper
  | f :: p :: rest => { name := p.name, left := p.left ++ f.close :: p.right, right := [] } :: rest
  | z => z

/-- pop `k` times -/
def upN : Nat → Zipper → Zipper
  | 0, z => z
  | k + 1, z => upN k (upOne z)

/-- pop until at most `n` frames are open (`dfs` popping down to the parent's hierarchy) -/
def closeTo (n : Nat) (z : Zipper) : Zipper := upN (z.length - n) z

/-- the finished root -/
def closeAll (z : Zipper) : Option T :=
  match closeTo 1 z with
  | [f] => some f.close
  | _ => none

/-- `findChildByText`: split the children at the first one called `x` -/
def splitAtName (x : Bytes) : List T → Option (List T × T × List T)
  | [] => none
  | t :: ts =>
    if t.name == x then some ([], t, ts)
    else match splitAtName x ts with
      | none => none
      | some (l, c, r) => some (t :: l, c, r)

/-- attach (or re-open, if an equally named child exists) `x` under the deepest open node -/
def descend (x : Bytes) : Zipper → Zipper
  | [] => []
  | f :: rest =>
    let kids := f.left ++ f.right
    match splitAtName x kids with
    | some (l, c, r) => { name := c.name, left := c.kids, right := [] } :: { name := f.name, left := l, right := r } :: rest
    | none => { name := x, left := [], right := [] } :: { name := f.name, left := kids, right := [] } :: rest

/-- `stack.dfs` for an item of hierarchy `h ≥ 2`: `none` when no open node has hierarchy `h-1`. -/
def dfs (h : Nat) (x : Bytes) (z : Zipper) : Option Zipper :=
  if h < 2 then none
  else if z.length < h - 1 then none
  else some (descend x (closeTo (h - 1) z))

inductive GErr where
  | emptyText
  | format (row : Bytes)
  | nilStack
  | tooLong
  | reader
deriving Repr, DecidableEq, BEq

structure GState where
  p    : PState := {}
  done : List T := []            -- completed roots, in input order
  cur  : Option Zipper := none   -- the root being built
deriving Repr

def GState.finishCur (s : GState) : List T :=
  match s.cur with
  | none => s.done
  | some z => match closeAll z with
    | some t => s.done ++ [t]
    | none => s.done

/-- what the generators do with a parsed item (hierarchy, text) of row `row` -/
def addItem (s : GState) (h : Nat) (text row : Bytes) : Except GErr GState :=
  if h == 1 then
    .ok { s with done := s.finishCur, cur := some [{ name := text, left := [], right := [] }] }
  else match s.cur with
    | none => .error .nilStack
    | some z => match dfs h text z with
      | none => .error (.format row)
      | some z' => .ok { s with cur := some z' }

/-- one row of `rootGeneratorSimple.generate` / `generateIter` -/
def genStep (s : GState) (row : Bytes) : Except GErr GState :=
  match parse s.p row with
  | (p', .error .blank) => .ok { s with p := p' }
  | (_, .error .emptyText) => .error .emptyText
  | (_, .error .incorrect) => .error (.format row)
  | (p', .ok (h, text)) => addItem { s with p := p' } h text row

/-- fold over the rows; on an error, keep the state reached before the failing row -/
def genRows : GState → List Bytes → GState × Option GErr
  | s, [] => (s, none)
  | s, r :: rs =>
    match genStep s r with
    | .error e => (s, some e)
    | .ok s' => genRows s' rs

/-- What the reader delivers: the document, or a prefix of it followed by a read error. -/
structure Input where
  doc  : Bytes
  fail : Bool := false     -- the reader returns an error after `doc`

/-- Result of generation: roots completed *before* the pending one, the pending root, error. -/
structure Gen where
  done : List T
  last : Option T
  err  : Option GErr
deriving Repr

def generateFrom (s0 : GState) (inp : Input) : Gen :=
  let sc := scanLines inp.doc
  let (s, e) := genRows s0 sc.rows
  let last := match s.cur with | none => none | some z => closeAll z
  match e with
  | some err =>
    -- D9: a row cut short by a failing reader reports the reader's error.
    -- Only the unterminated tail is delivered with the scanner's error already set.
    let tailDelivered := inp.fail && !sc.tooLong && !(inp.doc.getLast? == some lf) && !inp.doc.isEmpty
    let failedOnLast := (genRows s0 sc.rows.dropLast).2.isNone
    if tailDelivered && failedOnLast then ⟨s.done, last, some .reader⟩ else ⟨s.done, last, some err⟩
  | none =>
    if sc.tooLong then ⟨s.done, last, some .tooLong⟩
    else if inp.fail then ⟨s.done, last, some .reader⟩
    else ⟨s.done, last, none⟩

def generate (inp : Input) : Gen := generateFrom {} inp

/-- all roots of a successful generation -/
def Gen.roots (g : Gen) : List T := g.done ++ g.last.toList

end Gtree
