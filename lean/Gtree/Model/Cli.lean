import Gtree.Model.Api
/-
  Model of cmd/gtree (main.go, output.go, mkdir.go, verify.go, error.go): which failure gives which
  exit status. `urfave/cli` itself (flag parsing) is not modelled: the harness observes which of the
  stages below a command line reaches and compares the exit status with this table.
-/
namespace Gtree

inductive Sub where
  | output | mkdir | verify | template
deriving Repr, DecidableEq

/-- how far an invocation gets -/
inductive CliStage where
  | usage          -- stray arguments, unknown flag, bad flag value (errors that are not cli.ExitCoder)
  | opts           -- bad --format value (exitErrOpts)
  | open_          -- the markdown file cannot be opened (exitErrOpen)
  | lib (ok : Bool) -- the library call ran; ok = it returned nil
deriving Repr, DecidableEq

/-- exit status as wired in main.go / error.go; `dry` = mkdir --dry-run (routed to output) -/
def exitStatus (sub : Sub) (dry : Bool) : CliStage → Nat
  | .usage => 1
  | .opts => 1
  | .open_ => 2
  | .lib true => 0
  | .lib false =>
    match sub with
    | .output => 3
    | .mkdir => if dry then 3 else 4
    | .verify => 5
    | .template => 1

end Gtree
