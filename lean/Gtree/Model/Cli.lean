import Gtree.Model.Api
import Gtree.Generated.Facts
/-
  Model of cmd/gtree (main.go, output.go, mkdir.go, verify.go, error.go): which failure gives which
  exit status. The numbers come from the sources on every run (`Gtree.Generated.Facts.cliExitCodes`).
  `urfave/cli` itself (flag parsing) is not modelled: the harness observes which of the
  stages below a command line reaches and compares the exit status with this table.
-/
namespace Gtree

inductive Sub where
  | output | mkdir | verify | template
deriving Repr, DecidableEq

/-- how far an invocation gets -/
inductive CliStage where
  | usage          -- stray arguments, unknown flag, bad flag value (errors that are not cli.ExitCoder)
  | opts           -- bad --format value (exitErrOpts)
  | open_          -- the markdown file cannot be opened (exitErrOpen)
  | lib (ok : Bool) -- the library call ran; ok = it returned nil
deriving Repr, DecidableEq

/-- the status a `cmd/gtree` helper exits with — read from the regenerated facts (`cli.Exit(err, <constant>)`,
    constant expressions of error.go evaluated by the extractor); 0 for a helper the sources no longer have -/
def exitCode (helper : String) : Nat := (Facts.cliExitCodes.lookup helper).getD 0

/-- exit status as wired in main.go / error.go; `dry` = mkdir --dry-run (routed to output).
    `usage`: an error that is not a `cli.ExitCoder` comes back from `app.Run` and `main` exits with 1. -/
def exitStatus (sub : Sub) (dry : Bool) : CliStage → Nat
  | .usage => 1
  | .opts => exitCode "exitErrOpts"
  | .open_ => exitCode "exitErrOpen"
  | .lib true => 0
  | .lib false =>
    match sub with
    | .output => exitCode "exitErrOutput"
    | .mkdir => if dry then exitCode "exitErrOutput" else exitCode "exitErrMkdir"
    | .verify => exitCode "exitErrVerify"
    | .template => 1

end Gtree
