import Gtree.Model.Bytes
namespace Gtree

/-- A tree of names. After the identity-based `isLastOfHierarchy`, a gtree `Node` carries no other
    information that any output depends on (hierarchy = depth, index is dead, parent = context). -/
inductive T where
  | mk (name : Bytes) (kids : List T)
deriving Repr, Inhabited

namespace T
def name : T → Bytes | mk n _ => n
def kids : T → List T | mk _ k => k
@[simp] theorem name_mk (n : Bytes) (k : List T) : (mk n k).name = n := rfl
@[simp] theorem kids_mk (n : Bytes) (k : List T) : (mk n k).kids = k := rfl
end T

mutual
def T.size : T → Nat
  | .mk _ ks => 1 + sizeList ks
def sizeList : List T → Nat
  | [] => 0
  | t :: ts => t.size + sizeList ts
end

/-- the four branch strings -/
structure Fmt where
  lastD : Bytes   -- last node, directly      (default "└──")
  lastI : Bytes   -- last node, indirectly    (default "    ")
  midD  : Bytes   -- intermediate, directly   (default "├──")
  midI  : Bytes   -- intermediate, indirectly (default "│   ")
deriving Repr

def Fmt.default : Fmt :=
  { lastD := [0xE2, 0x94, 0x94, 0xE2, 0x94, 0x80, 0xE2, 0x94, 0x80]
    lastI := [0x20, 0x20, 0x20, 0x20]
    midD  := [0xE2, 0x94, 0x9C, 0xE2, 0x94, 0x80, 0xE2, 0x94, 0x80]
    midI  := [0xE2, 0x94, 0x82, 0x20, 0x20, 0x20] }

end Gtree
