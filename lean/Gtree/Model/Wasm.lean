import Gtree.Model.Api
/-
  Model of the tinywasm variant (wasm_tree_grower.go, wasm_tree_spreader.go, wasm_tree_handler.go).
  The grower bakes " " + name + "\n" into the branch string (`assembleBranchFinally`), the spreader
  concatenates the branch strings and writes everything with one buffered write at the end.
  `wasm_root_generator.go` is the batch generator (same `generate` as the default build's non-iterator path).
-/
namespace Gtree

/-- `assembleBranchFinally` of the wasm grower: the branch string of a grown node -/
def wasmBranch (v : Visit) : Bytes :=
  if v.level == 1 then v.name ++ [lf] else v.branch ++ [sp] ++ v.name ++ [lf]

/-- `defaultSpreader.spreadBranch`: concatenation of the baked branch strings, pre-order -/
def wasmSpreadBranch (f : Fmt) (root : T) : Bytes := ((growRoot f root).map wasmBranch).flatten

/-- `colorizeSpreader.spread` for one root (colour disabled): "%s\n%s" with summary ending in LF -/
def wasmDryReport (f : Fmt) (exts : List Bytes) (root : T) : Bytes :=
  let vs := growRoot f root
  wasmSpreadBranch f root ++ [lf] ++ (summaryBytes (countDirs exts vs) (countFiles exts vs) ++ [lf])

/-- wasm `Output`: generate everything, grow (validating when dry-run), then one write -/
def wasmOutput (f : Fmt) (dry : Bool) (exts : List Bytes) (inp : Input) : Out :=
  let g := generate inp
  match g.err with
  | some e => ⟨[], some (.gen e)⟩
  | none =>
    let roots := g.roots
    match (if dry then validateVisits (roots.map (growRoot f)).flatten else none) with
    | some e => ⟨[], some (.val e)⟩
    | none =>
      if dry then ⟨(roots.map (wasmDryReport f exts)).flatten, none⟩
      else ⟨(roots.map (wasmSpreadBranch f)).flatten, none⟩

/-- wasm JSON: `toJSONNode` allocates the children slice up front and fills it by index -/
def wasmOutputFormatted (inp : Input) : List FNode × Option Err :=
  let g := generate inp
  match g.err with
  | some e => ([], some (.gen e))
  | none => (g.roots.map toFormatted, none)

end Gtree
