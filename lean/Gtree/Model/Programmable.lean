import Gtree.Model.Api
/-
  Model of tree_handler_programmably.go: NewRoot / Add build a mutable tree; every From-Root call
  resets the package-level index counter. Node identity is an arena index.
-/
namespace Gtree

structure PNode where
  name      : Bytes
  hierarchy : Nat
  index     : Nat            -- from idxCounter; dead after identity-based isLastOfHierarchy, kept for fidelity
  children  : List Nat       -- arena ids, in Add order
deriving Repr

structure Store where
  nodes      : List PNode := []   -- append-only arena
  idxCounter : Nat := 0
deriving Repr

def Store.get? (s : Store) (id : Nat) : Option PNode := s.nodes[id]?

/-- `NewRoot` -/
def Store.newRoot (s : Store) (name : Bytes) : Store × Nat :=
  let idx := s.idxCounter + 1
  ({ nodes := s.nodes ++ [{ name := name, hierarchy := 1, index := idx, children := [] }], idxCounter := idx }, s.nodes.length)

/-- `findChildByText`: the first child of `p` called `name` -/
def Store.findChild (s : Store) (p : PNode) (name : Bytes) : Option Nat :=
  p.children.find? (fun c => match s.get? c with | some cn => cn.name == name | none => false)

/-- `(*Node).Add`: the existing child with that name, or a new child one level deeper -/
def Store.add (s : Store) (pid : Nat) (name : Bytes) : Store × Option Nat :=
  match s.get? pid with
  | none => (s, none)
  | some p =>
    match s.findChild p name with
    | some c => (s, some c)
    | none =>
      let idx := s.idxCounter + 1
      let cid := s.nodes.length
      let nodes := s.nodes ++ [{ name := name, hierarchy := p.hierarchy + 1, index := idx, children := [] }]
      let nodes := nodes.mapIdx (fun i n => if i == pid then { n with children := n.children ++ [cid] } else n)
      ({ nodes := nodes, idxCounter := idx }, some cid)

/-- the tree hanging below `id`; children always have larger ids than their parent, hence the fuel -/
def Store.toT (s : Store) : Nat → Nat → T
  | 0, _ => .mk [] []
  | fuel + 1, id =>
    match s.get? id with
    | none => .mk [] []
    | some n => .mk n.name (n.children.map (fun c => s.toT fuel c))

def Store.tree (s : Store) (id : Nat) : T := s.toT (s.nodes.length + 1) id

/-- `validateTreeRoot` -/
def Store.validateRoot (s : Store) (id : Option Nat) : Option Err :=
  match id with
  | none => some .nilNode
  | some i => match s.get? i with
    | none => some .nilNode
    | some n => if n.hierarchy == 1 then none else some .notRoot

/-- every From-Root entry point: validate, reset idxCounter, run on the tree below the root -/
def Store.fromRoot (s : Store) (id : Option Nat) (run : T → α) (fail : Err → α) : Store × α :=
  match s.validateRoot id with
  | some e => (s, fail e)
  | none => ({ s with idxCounter := 0 }, run (s.tree (id.getD 0)))

end Gtree
