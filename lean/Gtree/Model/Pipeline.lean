/-
  Abstract model of one pipeline stage of the massive mode together with its caller
  (pipeline_tree*.go, root_generator.go: `worker` functions, the per-stage error channel of capacity 1,
  `handlePipelineErr`, the context).

  A source hands `todo` items to `W` identical workers (counter abstraction: only the numbers of workers
  that are idle / want to report an error / have exited matter). Processing an item may fail, at any
  item (non-deterministically): the worker then wants to send the error on the stage's error channel,
  whose buffer holds one value and from which the caller receives at most once. The caller returns at
  the first error, when the stage has wound down, or when the context is cancelled; returning cancels
  the context (deferred `cancel()`).

  `guarded = true` : every error send selects on ctx.Done() (the `sendErr` helper, commit 4d7fe54);
  `guarded = false`: the bare `errc <- err` of the pinned code.
-/
namespace Gtree.Pipe

structure St where
  todo      : Nat    -- items the source has still to hand over
  srcClosed : Bool   -- the source closed its channel (input exhausted, or it saw the cancellation)
  idle      : Nat    -- workers waiting for an item
  err       : Nat    -- workers blocked on sending an error
  done      : Nat    -- workers that have exited
  errbuf    : Bool   -- the error channel's one-slot buffer is full
  cancelled : Bool   -- ctx.Done() is closed
  returned  : Bool   -- the call has returned to its caller
deriving Repr, DecidableEq

def init (todo workers : Nat) : St :=
  { todo := todo, srcClosed := false, idle := workers, err := 0, done := 0,
    errbuf := false, cancelled := false, returned := false }

/-- transitions of the library's own goroutines (workers, source, closer, caller) -/
inductive SysStep (guarded : Bool) : St → St → Prop
  | takeOk   (s : St) : s.todo > 0 → s.srcClosed = false → s.idle > 0 →
      SysStep guarded s { s with todo := s.todo - 1 }
  | takeFail (s : St) : s.todo > 0 → s.srcClosed = false → s.idle > 0 →
      SysStep guarded s { s with todo := s.todo - 1, idle := s.idle - 1, err := s.err + 1 }
  | srcDone  (s : St) : s.srcClosed = false → (s.todo = 0 ∨ s.cancelled = true) →
      SysStep guarded s { s with srcClosed := true }
  | idleExit (s : St) : s.idle > 0 → (s.srcClosed = true ∨ s.cancelled = true) →
      SysStep guarded s { s with idle := s.idle - 1, done := s.done + 1 }
  | errSend  (s : St) : s.err > 0 → s.errbuf = false →
      SysStep guarded s { s with err := s.err - 1, done := s.done + 1, errbuf := true }
  | errGiveUp (s : St) : guarded = true → s.err > 0 → s.cancelled = true →
      SysStep guarded s { s with err := s.err - 1, done := s.done + 1 }
  | recvErr  (s : St) : s.errbuf = true → s.returned = false →
      SysStep guarded s { s with errbuf := false, returned := true, cancelled := true }
  | recvClosed (s : St) : s.returned = false → s.idle = 0 → s.err = 0 → s.errbuf = false →
      SysStep guarded s { s with returned := true, cancelled := true }
  | recvCancel (s : St) : s.returned = false → s.cancelled = true →
      SysStep guarded s { s with returned := true }

/-- the environment: the caller's context may be cancelled at any instant -/
inductive EnvStep : St → St → Prop
  | cancel (s : St) : s.cancelled = false → EnvStep s { s with cancelled := true }

def Step (guarded : Bool) (s s' : St) : Prop := SysStep guarded s s' ∨ EnvStep s s'

inductive Reach (guarded : Bool) (s0 : St) : St → Prop
  | refl : Reach guarded s0 s0
  | step {s s'} : Reach guarded s0 s → Step guarded s s' → Reach guarded s0 s'

/-- termination measure -/
def measure (s : St) : Nat :=
  3 * s.todo + 2 * s.idle + s.err + (if s.srcClosed then 0 else 1) +
    (if s.returned then 0 else 1) + (if s.cancelled then 0 else 1)

/-- once returned the context is cancelled (deferred cancel) -/
def Inv (s : St) : Prop := s.returned = true → s.cancelled = true

end Gtree.Pipe
