import Gtree.Model.Grow
/-
  Model of simple_tree_spreader.go, simple_tree_grow_spreader.go, file_considerer.go, simple_tree_walker.go.
  Printers produce *chunks* (one per `Write` the code issues on the text path, one per root on the
  dry-run path); a writer with a fault oracle consumes them (see `Writer`).
-/
namespace Gtree

/-- the line printed for one grown node (`spreadBranch` / `assembleAndPrint`) -/
def lineOf (v : Visit) : Bytes := v.row ++ [lf]

/-- text output of one root: one chunk (one `fmt.Fprint`) per node, pre-order -/
def textChunks (f : Fmt) (root : T) : List Bytes := (growRoot f root).map lineOf

/-- `fileConsiderer.isFile`: no children and the name ends with one of the extensions -/
def isFileNode (exts : List Bytes) (name : Bytes) (hasChild : Bool) : Bool :=
  !hasChild && exts.any (fun e => hasSuffix name e)

def natBytes (n : Nat) : Bytes := (toString n).toUTF8.toList

def strBytes (s : String) : Bytes := s.toUTF8.toList

/-- number of nodes the dry-run counts as files / as directories -/
def countFiles (exts : List Bytes) (vs : List Visit) : Nat :=
  (vs.filter (fun v => isFileNode exts v.name v.hasChild)).length
def countDirs (exts : List Bytes) (vs : List Visit) : Nat :=
  (vs.filter (fun v => !isFileNode exts v.name v.hasChild)).length

/-- `summary()` : "%d directories, %d files" -/
def summaryBytes (dirs files : Nat) : Bytes :=
  natBytes dirs ++ strBytes " directories, " ++ natBytes files ++ strBytes " files"

/-- dry-run report of one root (colour disabled): the tree text, an empty line's worth of LF, the summary -/
def dryRunReport (f : Fmt) (exts : List Bytes) (root : T) : Bytes :=
  let vs := growRoot f root
  (vs.map lineOf).flatten ++ [lf] ++ summaryBytes (countDirs exts vs) (countFiles exts vs) ++ [lf]

/-- formatted tree (`jsonNode`/`yamlNode`/`tomlNode`): same names, order, nesting.
    `toFormattedNode` appends one child at a time and recurses into `getChild(i)`; the loop invariant
    `len(Children) = i` makes that the child just appended. -/
inductive FNode where
  | mk (value : Bytes) (children : List FNode)
deriving Repr, Inhabited

mutual
def toFormatted : T → FNode
  | .mk n ks => .mk n (toFormattedKids ks)
def toFormattedKids : List T → List FNode
  | [] => []
  | t :: ts => toFormatted t :: toFormattedKids ts
end

/-- A writer that accepts chunks until its fault index (if any): `failAt = some k` makes the k-th
    write (0-based) fail, accepting `short` bytes of it (a short write also returns an error). -/
structure WFault where
  failAt : Option Nat := none
  short  : Nat := 0

/-- feed chunks to the writer: bytes accepted, and whether a write failed. Writing stops at the
    first failed write (every printer returns on the first write error, after D8). -/
def emit (wf : WFault) : List Bytes → Nat → Bytes × Bool
  | [], _ => ([], false)
  | c :: cs, i =>
    if wf.failAt == some i then (c.take wf.short, true)
    else
      let (rest, failed) := emit wf cs (i + 1)
      (c ++ rest, failed)

end Gtree
