import Gtree.Model.Generate
/-
  Model of input_spliter.go (`split`, `isRootBlockBeginning`, `isSharpRootRow`) and of the generator
  worker of the massive mode (root_generator.go: `rootGeneratorPipeline.worker`), over rows.

  The splitter cuts the document into blocks: a new block begins at every row that starts with one of
  the symbols `# - * +` – once a heading row has been read, only at heading rows. A generator worker
  parses the rows of one block with the parser shared by all workers and a fresh stack of open nodes,
  and hands on the root of the block (the last root row's node), or reports the block's first error.
-/
namespace Gtree

def isSharpRow (l : Bytes) : Bool := l.head? == some shp

def startsWithSymbol (l : Bytes) : Bool :=
  match l with
  | [] => false
  | b :: _ => isSymbolByte b

/-- `isRootBlockBeginning` -/
def rootBeginning (l : Bytes) (sharp : Bool) : Bool :=
  if sharp then isSharpRow l else startsWithSymbol l

structure SplitSt where
  sharp : Bool := false               -- a heading row has been read
  block : List Bytes := []            -- rows of the block being collected
  out   : List (List Bytes) := []     -- blocks sent so far
deriving Repr

def splitStep (st : SplitSt) (l : Bytes) : SplitSt :=
  let sharp := st.sharp || isSharpRow l
  if rootBeginning l sharp then
    { sharp := sharp, block := [l], out := if st.block.isEmpty then st.out else st.out ++ [st.block] }
  else { sharp := sharp, block := st.block ++ [l], out := st.out }

/-- the blocks sent after the whole input has been read (the last one is always sent, even when empty) -/
def SplitSt.final (st : SplitSt) : List (List Bytes) := st.out ++ [st.block]

def splitBlocks (rows : List Bytes) : List (List Bytes) := (rows.foldl splitStep {}).final

/-- one block through a generator worker: the parser state afterwards, and the block's root (if it has one)
    or its first error -/
def genBlock (p : PState) (block : List Bytes) : PState × Except GErr (Option T) :=
  match genRows { p := p } block with
  | (g, some e) => (g.p, .error e)
  | (g, none) => (g.p, .ok (match g.cur with | none => none | some z => closeAll z))

/-- the blocks one after the other, in input order, through the one shared parser:
    the roots handed on, the first error, the parser state at the end -/
def genBlocksSeq : PState → List (List Bytes) → List T × Option GErr × PState
  | p, [] => ([], none, p)
  | p, b :: bs =>
    match genBlock p b with
    | (p', .error e) => ([], some e, p')
    | (p', .ok r) =>
      match genBlocksSeq p' bs with
      | (rs, e, p'') => (r.toList ++ rs, e, p'')

end Gtree
