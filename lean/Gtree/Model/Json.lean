import Gtree.Generated.Facts
/-
  The JSON text gtree prints for a formatted tree, and a JSON reader.

  gtree hands each root's formatted tree (`jsonNode{Name string "value"; Children []*jsonNode "children"}`) to
  `encoding/json`'s `Encoder.Encode` with the default settings (HTML escaping on).  `encodeNode` is that
  encoder restricted to this one struct type, over Unicode scalar values (`Char`): names that are not valid
  UTF-8 are outside this model (the standard encoder replaces their broken bytes by U+FFFD, see DESIGN §6 C04).
  `parseValue` is a reader of compact JSON texts (RFC 8259 values without insignificant white space and
  without surrogate escapes): whatever it reads, a standard decoder reads the same way.

  The correspondence check prints the real JSON of random trees and compares it byte for byte with
  `encodeRoots` (driver op `json`).
-/
namespace Gtree.Json

mutual
/-- a JSON value (arrays and objects as explicit lists, so that every recursion below is structural) -/
inductive J where
  | null
  | str (s : List Char)
  | arr (xs : JL)
  | obj (ms : ML)
/-- array elements -/
inductive JL where
  | nil
  | cons (x : J) (xs : JL)
/-- object members, in order -/
inductive ML where
  | nil
  | cons (k : List Char) (v : J) (ms : ML)
end

/-- lower-case hexadecimal digit -/
def hexDigit (n : Nat) : Char := if n < 10 then Char.ofNat (48 + n) else Char.ofNat (87 + n)

/-- `\uXXXX` -/
def u4 (n : Nat) : List Char :=
  ['\\', 'u', hexDigit (n / 4096 % 16), hexDigit (n / 256 % 16), hexDigit (n / 16 % 16), hexDigit (n % 16)]

/-- encoding/json `appendString` with `escapeHTML = true`, one scalar value at a time -/
def escChar (c : Char) : List Char :=
  if c = '"' then ['\\', '"']
  else if c = '\\' then ['\\', '\\']
  else if c.toNat = 8 then ['\\', 'b']
  else if c.toNat = 12 then ['\\', 'f']
  else if c = '\n' then ['\\', 'n']
  else if c = '\r' then ['\\', 'r']
  else if c = '\t' then ['\\', 't']
  else if c.toNat < 32 then u4 c.toNat
  else if c = '<' ∨ c = '>' ∨ c = '&' then u4 c.toNat
  else if c.toNat = 0x2028 ∨ c.toNat = 0x2029 then u4 c.toNat
  else [c]

def escape : List Char → List Char
  | [] => []
  | c :: cs => escChar c ++ escape cs

def quote (s : List Char) : List Char := '"' :: escape s ++ ['"']

/-- a formatted tree whose names are sequences of Unicode scalar values -/
inductive CT where
  | mk (value : List Char) (children : List CT)

/-- the keys of the two fields of `jsonNode`, from the struct tags in the sources (regenerated facts);
    the empty string for a field the sources no longer have -/
def keyOf (i : Nat) : List Char :=
  ((((Facts.formattedTags.lookup "simple_tree_spreader.go:jsonNode").getD []).getD i "")).toList
def valueKey : List Char := keyOf 0
def childrenKey : List Char := keyOf 1

mutual
/-- the JSON value of `jsonNode{Name "value"; Children "children"}`: `children` is `null` for a leaf (nil slice) -/
def CT.toJ : CT → J
  | .mk v cs => .obj (.cons valueKey (.str v) (.cons childrenKey (CT.kidsToJ cs) .nil))
def CT.kidsToJ : List CT → J
  | [] => .null
  | c :: cs => .arr (.cons c.toJ (CT.kidsToJs cs))
def CT.kidsToJs : List CT → JL
  | [] => .nil
  | c :: cs => .cons c.toJ (CT.kidsToJs cs)
end

mutual
/-- compact JSON text, as `encoding/json` prints it -/
def J.print : J → List Char
  | .null => ['n', 'u', 'l', 'l']
  | .str s => quote s
  | .arr .nil => ['[', ']']
  | .arr (.cons x xs) => '[' :: x.print ++ JL.printTail xs
  | .obj .nil => ['{', '}']
  | .obj (.cons k v ms) => '{' :: quote k ++ ':' :: v.print ++ ML.printTail ms
/-- the elements after the first, and the closing bracket -/
def JL.printTail : JL → List Char
  | .nil => [']']
  | .cons x xs => ',' :: x.print ++ JL.printTail xs
def ML.printTail : ML → List Char
  | .nil => ['}']
  | .cons k v ms => ',' :: quote k ++ ':' :: v.print ++ ML.printTail ms
end

/-- what `Encoder.Encode` writes for one root: the value and a line feed -/
def encodeRoot (t : CT) : List Char := t.toJ.print ++ ['\n']

def encodeRoots : List CT → List Char
  | [] => []
  | t :: ts => encodeRoot t ++ encodeRoots ts

/-! ### reader -/

def hexVal (c : Char) : Option Nat :=
  if '0' ≤ c ∧ c ≤ '9' then some (c.toNat - 48)
  else if 'a' ≤ c ∧ c ≤ 'f' then some (c.toNat - 87)
  else if 'A' ≤ c ∧ c ≤ 'F' then some (c.toNat - 55)
  else none

/-- the characters of a string up to its closing quote; the rest of the text -/
def parseStr : List Char → Option (List Char × List Char)
  | [] => none
  | '"' :: rest => some ([], rest)
  | '\\' :: e :: rest =>
    if e = 'u' then
      match rest with
      | a :: b :: c :: d :: rest' =>
        match hexVal a, hexVal b, hexVal c, hexVal d with
        | some a, some b, some c, some d =>
          let n := a * 4096 + b * 256 + c * 16 + d
          if 0xD800 ≤ n ∧ n < 0xE000 then none      -- surrogate escapes: not read by this reader
          else (parseStr rest').map fun (s, r) => (Char.ofNat n :: s, r)
        | _, _, _, _ => none
      | _ => none
    else
      let lit : Option Char :=
        if e = '"' then some '"' else if e = '\\' then some '\\' else if e = '/' then some '/'
        else if e = 'b' then some (Char.ofNat 8) else if e = 'f' then some (Char.ofNat 12)
        else if e = 'n' then some '\n' else if e = 'r' then some '\r' else if e = 't' then some '\t' else none
      match lit with
      | some c => (parseStr rest).map fun (s, r) => (c :: s, r)
      | none => none
  | c :: rest =>
    if c.toNat < 32 then none else (parseStr rest).map fun (s, r) => (c :: s, r)

mutual
/-- a JSON value at the head of the text; the rest of the text.  `fuel` bounds the nesting. -/
def parseValue : Nat → List Char → Option (J × List Char)
  | 0, _ => none
  | _ + 1, 'n' :: 'u' :: 'l' :: 'l' :: rest => some (.null, rest)
  | _ + 1, '"' :: rest => (parseStr rest).map fun (s, r) => (.str s, r)
  | fuel + 1, '[' :: rest =>
    match rest with
    | ']' :: r => some (.arr .nil, r)
    | _ =>
      match parseValue fuel rest with
      | some (x, r) => (parseElems fuel r).map fun (xs, r') => (.arr (.cons x xs), r')
      | none => none
  | fuel + 1, '{' :: rest =>
    match rest with
    | '}' :: r => some (.obj .nil, r)
    | '"' :: r =>
      match parseStr r with
      | some (k, ':' :: r1) =>
        match parseValue fuel r1 with
        | some (v, r2) => (parseMembers fuel r2).map fun (ms, r') => (.obj (.cons k v ms), r')
        | none => none
      | _ => none
    | _ => none
  | _ + 1, _ => none
/-- `, value` … `]` -/
def parseElems : Nat → List Char → Option (JL × List Char)
  | 0, _ => none
  | _ + 1, ']' :: r => some (.nil, r)
  | fuel + 1, ',' :: r =>
    match parseValue fuel r with
    | some (x, r1) => (parseElems fuel r1).map fun (xs, r') => (.cons x xs, r')
    | none => none
  | _ + 1, _ => none
/-- `, "key": value` … `}` -/
def parseMembers : Nat → List Char → Option (ML × List Char)
  | 0, _ => none
  | _ + 1, '}' :: r => some (.nil, r)
  | fuel + 1, ',' :: '"' :: r =>
    match parseStr r with
    | some (k, ':' :: r1) =>
      match parseValue fuel r1 with
      | some (v, r2) => (parseMembers fuel r2).map fun (ms, r') => (.cons k v ms, r')
      | none => none
    | _ => none
  | _ + 1, _ => none
end

/-- one JSON value per line: what a decoder reading the stream value by value obtains -/
def parseLines : Nat → List Char → Option (List J)
  | 0, _ => none
  | _ + 1, [] => some []
  | fuel + 1, s =>
    match parseValue s.length s with
    | some (v, '\n' :: r) => (parseLines fuel r).map (v :: ·)
    | _ => none

mutual
/-- read a decoded `{"value": …, "children": …}` record back as a tree; `null` and `[]` both mean no children -/
def J.toCT : J → Option CT
  | .obj (.cons k1 (.str v) (.cons k2 kids .nil)) =>
    if k1 = valueKey ∧ k2 = childrenKey then
      match kids with
      | .null => some (.mk v [])
      | .arr xs => (JL.toCTs xs).map (CT.mk v)
      | _ => none
    else none
  | _ => none
def JL.toCTs : JL → Option (List CT)
  | .nil => some []
  | .cons x xs =>
    match x.toCT, JL.toCTs xs with
    | some t, some ts => some (t :: ts)
    | _, _ => none
end

/-- the decoder reading the stream value by value -/
def decodeStream (s : List Char) : Option (List J) := parseLines (s.length + 1) s

/-- read every decoded value as a tree -/
def readAll : List J → Option (List CT)
  | [] => some []
  | j :: js =>
    match j.toCT, readAll js with
    | some t, some ts => some (t :: ts)
    | _, _ => none

end Gtree.Json
