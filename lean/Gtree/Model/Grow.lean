import Gtree.Model.Tree
import Gtree.Model.Path
/-
  Model of simple_tree_grower.go (assembleBranch*), node.go (setBranch/setPath/validatePath/isLastOfHierarchy).
  Go walks the parent pointers from the node up to the root; here the chain of ancestors is the
  recursion's context (`anc`, nearest first, ancestors strictly below the root).
-/
namespace Gtree

/-- what a `WalkerNode` exposes for one node -/
structure Visit where
  name     : Bytes
  branch   : Bytes
  level    : Nat
  path     : Bytes
  hasChild : Bool
deriving Repr, DecidableEq, BEq

/-- `WalkerNode.Row` -/
def Visit.row (v : Visit) : Bytes :=
  if v.level == 1 then v.name else v.branch ++ sp :: v.name

/-- an ancestor strictly below the root: its name and whether it is its parent's last child -/
abbrev Anc := Bytes × Bool

/-- `assembleBranchDirectly` then `assembleBranchIndirectly` for every ancestor, nearest first:
    the connector is set first, every ancestor's continuation string is then *prepended*. -/
def branchOf (f : Fmt) (selfLast : Bool) (anc : List Anc) : Bytes :=
  anc.foldl (fun acc a => (if a.2 then f.lastI else f.midI) ++ acc) (if selfLast then f.lastD else f.midD)

/-- `setPath(name)`, then `setPath(parent.name, path)` for every ancestor nearest first,
    finally `setPath(root.path(), path)`; `root.path()` is the raw root name. -/
def pathOf (rootName : Bytes) (name : Bytes) (anc : List Anc) : Bytes :=
  pathJoin [rootName, anc.foldl (fun acc a => pathJoin [a.1, acc]) (pathJoin [name])]

mutual
/-- grow one non-root node and its descendants, pre-order -/
def growNode (f : Fmt) (rootName : Bytes) (anc : List Anc) (level : Nat) (selfLast : Bool) : T → List Visit
  | .mk n ks =>
    { name := n, branch := branchOf f selfLast anc, level := level,
      path := pathOf rootName n anc, hasChild := !ks.isEmpty }
    :: growKids f rootName ((n, selfLast) :: anc) (level + 1) ks
/-- the children of one parent; the last element of the list is the last child (identity = position) -/
def growKids (f : Fmt) (rootName : Bytes) (anc : List Anc) (level : Nat) : List T → List Visit
  | [] => []
  | [t] => growNode f rootName anc level true t
  | t :: t2 :: ts => growNode f rootName anc level false t ++ growKids f rootName anc level (t2 :: ts)
end

/-- grow a root: its own visit has an empty branch and `path = name` -/
def growRoot (f : Fmt) : T → List Visit
  | .mk n ks =>
    { name := n, branch := [], level := 1, path := n, hasChild := !ks.isEmpty }
    :: growKids f n [] 2 ks

inductive VErr where
  | invalidName (name : Bytes)
  | invalidPath (path : Bytes)
deriving Repr, DecidableEq, BEq

/-- `Node.validatePath` -/
def validateVisit (v : Visit) : Option VErr :=
  if !singleElem v.name then some (.invalidName v.name)
  else if !fsValidPath v.path then some (.invalidPath v.path)
  else none

/-- validation happens node by node, in pre-order, while growing: the first offender is reported -/
def validateVisits : List Visit → Option VErr
  | [] => none
  | v :: vs => match validateVisit v with
    | some e => some e
    | none => validateVisits vs

end Gtree
