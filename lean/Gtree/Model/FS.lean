import Gtree.Model.Path
/-
  A finite-map file system keyed by cleaned path strings. It abstracts the real OS:
  no symlinks, permissions, hard links, quotas or concurrent writers. Refusals modelled:
  a path component that is a regular file (ENOTDIR), an element longer than 255 bytes
  (ENAMETOOLONG), an element containing NUL (EINVAL), creating a file over a directory (EISDIR).
-/
namespace Gtree

inductive Kind where
  | dir
  | file (size : Nat)
deriving Repr, DecidableEq, BEq

abbrev FS := List (Bytes × Kind)

inductive FErr where
  | notExist | notDir | nameTooLong | invalid | isDir
deriving Repr, DecidableEq, BEq

def FS.lookup (fs : FS) (p : Bytes) : Option Kind :=
  match fs.find? (fun e => e.1 == p) with
  | some e => some e.2
  | none => none

/-- the proper prefixes and the path itself, shortest first: "t/a/b" ↦ ["t", "t/a", "t/a/b"] -/
def prefixesOf (p : Bytes) : List Bytes :=
  let rooted := p.head? == some slash
  let elems := (splitSlash p).filter (fun e => !e.isEmpty)
  let mk (es : List Bytes) : Bytes := if rooted then slash :: joinSlash es else joinSlash es
  (List.range elems.length).map (fun i => mk (elems.take (i + 1)))

def nameMax : Nat := 255

/-- syntactic refusals of a path by the OS -/
def pathRefusal (p : Bytes) : Option FErr :=
  let elems := splitSlash p
  if elems.any (fun e => e.contains 0) then some .invalid
  else if elems.any (fun e => e.length > nameMax) then some .nameTooLong
  else none

/-- the paths "." and "/" and ".." chains always exist as directories (outside what we track) -/
def isAmbient (p : Bytes) : Bool :=
  p == [dot] || p == [slash] || (splitSlash p).all (fun e => e == dotdot)

def FS.kindOf (fs : FS) (p : Bytes) : Option Kind :=
  if isAmbient p then some .dir else fs.lookup p

/-- a NUL byte anywhere: refused before any lookup (Go cannot even pass the path to the kernel) -/
def hasNul (p : Bytes) : Bool := (splitSlash p).any (fun e => e.contains 0)

/-- the last element of a path is longer than a file name may be -/
def lastTooLong (q : Bytes) : Bool :=
  match (splitSlash q).getLast? with
  | some e => e.length > nameMax
  | none => false

/-- `os.Stat`: the kernel resolves the path element by element, so the leftmost problem decides:
    a missing element before an over-long one is "does not exist" -/
def FS.stat (fs : FS) (p : Bytes) : Except FErr Kind :=
  if hasNul p then .error .invalid
  else
    let pres := prefixesOf p
    -- every proper prefix must be a directory
    let rec go : List Bytes → Except FErr Kind
      | [] => .ok .dir
      | [q] =>
        if lastTooLong q then .error .nameTooLong
        else match fs.kindOf q with
          | some k => .ok k
          | none => .error .notExist
      | q :: q2 :: qs =>
        if lastTooLong q then .error .nameTooLong
        else match fs.kindOf q with
          | some .dir => go (q2 :: qs)
          | some (.file _) => .error .notDir
          | none => .error .notExist
    if isAmbient p then .ok .dir else go pres

/-- `os.MkdirAll` -/
def FS.mkdirAll (fs : FS) (p : Bytes) : FS × Option FErr :=
  if isAmbient p then (fs, none) else
  let rec go (fs : FS) : List Bytes → FS × Option FErr
    | [] => (fs, none)
    | q :: qs =>
      match pathRefusal q with
      | some e => (fs, some e)
      | none =>
        match fs.kindOf q with
        | some .dir => go fs qs
        | some (.file _) => (fs, some .notDir)
        | none => go (fs ++ [(q, .dir)]) qs
  go fs (prefixesOf p)

/-- what is wrong with `q` as a parent directory, if anything -/
def FS.parentProblem (fs : FS) (q : Bytes) : Option FErr :=
  match fs.kindOf q with
  | some .dir => none
  | some (.file _) => some FErr.notDir
  | none => some FErr.notExist

/-- `os.Create` + `Close`: an empty regular file; the parent must be a directory -/
def FS.create (fs : FS) (p : Bytes) : FS × Option FErr :=
  match pathRefusal p with
  | some e => (fs, some e)
  | none =>
    let pres := prefixesOf p
    let parents := pres.dropLast
    let bad := parents.findSome? fs.parentProblem
    match bad with
    | some e => (fs, some e)
    | none =>
      match fs.kindOf p with
      | some .dir => (fs, some .isDir)
      | some (.file _) => (fs.map (fun e => if e.1 == p then (p, .file 0) else e), none)
      | none => (fs ++ [(p, .file 0)], none)

/-- is `p` strictly below directory `d` (both cleaned) -/
def isBelow (d p : Bytes) : Bool :=
  if d == [dot] then !(p.head? == some slash) && p != [dot] && !((splitSlash p).head? == some dotdot)
  else (d ++ [slash]).isPrefixOf p && p.length > d.length + 1

/-- `fs.WalkDir(os.DirFS(root), ".")`: `root` itself (as `root`) and everything below it -/
def FS.under (fs : FS) (root : Bytes) : List Bytes :=
  (fs.filter (fun e => isBelow root e.1)).map (·.1)

end Gtree
