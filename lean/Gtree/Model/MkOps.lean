import Gtree.Model.Mkdir
/-
  The mkdirer at the level of single file-system operations, for the massive mode: there the roots are
  created by concurrent workers (pipeline_tree_mkdirer.go), so the operations of different roots reach the
  file system in an order the scheduler chooses.  `opsOf` is what `makeDirectoriesAndFiles` issues for one
  node; `mkNodes` (the simple mode) is "the nodes' operations in pre-order until the first failure".
-/
namespace Gtree

inductive FsOp where
  | mkdirAll (p : Bytes)
  | create (p : Bytes)
deriving Repr, DecidableEq

/-- one operation: the file system afterwards (also when it failed half-way) and its error -/
def FS.applyOp (fs : FS) : FsOp → FS × Option FErr
  | .mkdirAll p => fs.mkdirAll p
  | .create p => fs.create p

/-- the operations `makeDirectoriesAndFiles` issues for one grown node -/
def opsOf (target : Bytes) (exts : List Bytes) (v : Visit) : List FsOp :=
  if isFileNode exts v.name v.hasChild then
    [.mkdirAll (filepathJoin [target, trimSuffix v.path v.name]), .create (filepathJoin [target, v.path])]
  else if !v.hasChild then [.mkdirAll (filepathJoin [target, v.path])]
  else []

/-- operations in order until the first failure -/
def runOps : FS → List FsOp → FS × Option FErr
  | fs, [] => (fs, none)
  | fs, op :: ops =>
    match fs.applyOp op with
    | (fs1, some e) => (fs1, some e)
    | (fs1, none) => runOps fs1 ops

/-- operations in any order, each running to its end whatever the others did: what the file system holds
    after a (prefix of a) massive run is the fold of its operations in the order they happened -/
def applyAll (fs : FS) (ops : List FsOp) : FS := ops.foldl (fun s op => (s.applyOp op).1) fs

end Gtree

namespace Gtree
/-- The massive mode's mkdirer at the granularity of roots: the workers take the roots in the order the
    scheduler hands them out; each checks that ITS root does not exist yet (pipeline_tree_mkdirer.go:
    `isExistRoot([]*Node{root})`) and creates it. -/
def mkdirRootsEach (target : Bytes) (exts : List Bytes) : FS → List (List Visit) → FS × Option MkErr
  | fs, [] => (fs, none)
  | fs, vs :: rest =>
    if anyRootExists fs target [vs] then (fs, some .exist)
    else match mkNodes target exts fs vs with
      | (fs1, some e) => (fs1, some (.os e))
      | (fs1, none) => mkdirRootsEach target exts fs1 rest
end Gtree

namespace Gtree
/-- one root's verification as the massive verifier's worker does it (pipeline_tree_verifier.go):
    `verifyRoot` then `handleErr` -/
def verifyOne (fs : FS) (target : Bytes) (strict : Bool) (vs : List Visit) : Option VfErr :=
  match verifyRoot fs target vs with
  | .error e => some (.os e)
  | .ok d => if (strict && !d.extra.isEmpty) || !d.missing.isEmpty then some (.diff strict d) else none
end Gtree
