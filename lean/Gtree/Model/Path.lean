import Gtree.Model.Bytes
/-
  Model of the parts of Go's `path`, `io/fs`, `path/filepath` (unix) and `unicode/utf8` that gtree uses.
-/
namespace Gtree

/-- split at '/' (like `strings.Split(s, "/")`) -/
def splitSlash : Bytes → List Bytes
  | [] => [[]]
  | x :: xs =>
    match splitSlash xs with
    | [] => [[]]
    | l :: ls => if x == slash then [] :: l :: ls else (x :: l) :: ls

def joinSlash : List Bytes → Bytes
  | [] => []
  | [e] => e
  | e :: es => e ++ slash :: joinSlash es

def dotdot : Bytes := [dot, dot]

/-- element processing of `path.Clean`; `stack` is reversed (top first) -/
def cleanElems (rooted : Bool) : List Bytes → List Bytes → List Bytes
  | [], stack => stack.reverse
  | e :: es, stack =>
    if e.isEmpty || e == [dot] then cleanElems rooted es stack
    else if e == dotdot then
      match stack with
      | top :: rest => if top == dotdot then cleanElems rooted es (e :: stack) else cleanElems rooted es rest
      | [] => if rooted then cleanElems rooted es [] else cleanElems rooted es [e]
    else cleanElems rooted es (e :: stack)

/-- `path.Clean` -/
def pathClean (p : Bytes) : Bytes :=
  if p.isEmpty then [dot]
  else
    let rooted := p.head? == some slash
    let body := joinSlash (cleanElems rooted (splitSlash p) [])
    if rooted then slash :: body
    else if body.isEmpty then [dot] else body

/-- `path.Join` -/
def pathJoin (elems : List Bytes) : Bytes :=
  let ne := elems.filter (fun e => !e.isEmpty)
  if ne.isEmpty then [] else pathClean (joinSlash ne)

/-- `filepath.Join` on unix is `path.Join` -/
def filepathJoin (elems : List Bytes) : Bytes := pathJoin elems

/-- `utf8.Valid` (well-formed UTF-8: no overlong forms, no surrogates, ≤ U+10FFFF) -/
def utf8ValidFuel : Nat → Bytes → Bool
  | _, [] => true
  | 0, _ => false
  | fuel + 1, b0 :: rest =>
    let cont (b : UInt8) : Bool := 0x80 ≤ b && b ≤ 0xBF
    if b0 < 0x80 then utf8ValidFuel fuel rest
    else if 0xC2 ≤ b0 && b0 ≤ 0xDF then
      match rest with
      | b1 :: r => cont b1 && utf8ValidFuel fuel r
      | _ => false
    else if 0xE0 ≤ b0 && b0 ≤ 0xEF then
      match rest with
      | b1 :: b2 :: r =>
        let lo : UInt8 := if b0 == 0xE0 then 0xA0 else 0x80
        let hi : UInt8 := if b0 == 0xED then 0x9F else 0xBF
        lo ≤ b1 && b1 ≤ hi && cont b2 && utf8ValidFuel fuel r
      | _ => false
    else if 0xF0 ≤ b0 && b0 ≤ 0xF4 then
      match rest with
      | b1 :: b2 :: b3 :: r =>
        let lo : UInt8 := if b0 == 0xF0 then 0x90 else 0x80
        let hi : UInt8 := if b0 == 0xF4 then 0x8F else 0xBF
        lo ≤ b1 && b1 ≤ hi && cont b2 && cont b3 && utf8ValidFuel fuel r
      | _ => false
    else false

def utf8Valid (s : Bytes) : Bool := utf8ValidFuel s.length s

/-- `fs.ValidPath` -/
def fsValidPath (p : Bytes) : Bool :=
  utf8Valid p &&
  (p == [dot] ||
   (splitSlash p).all (fun e => !e.isEmpty && e != [dot] && e != dotdot))

/-- a name that is one valid path element: what `validatePath` accepts as a node name (after D6) -/
def singleElem (n : Bytes) : Bool :=
  !n.isEmpty && n != [dot] && n != dotdot && !n.contains slash

end Gtree
