/-
  Abstract model of the whole massive pipeline: a source, a chain of K ≥ 1 stages with their worker
  pools, one error channel (capacity 1) and one waiter of `handlePipelineErr` per stage, the caller's
  context and the errgroup's derived context. (pipeline_tree.go, pipeline_tree_*.go, root_generator.go,
  input_spliter.go, after commits 4d7fe54 / 1d9ff75.)

  Channels between stages are unbuffered: a worker that has processed an item holds it (`send`) until
  a worker of the next stage takes it (`handover`) or the context is cancelled (`sendGiveUp`). Counter
  abstraction: per stage only the numbers of workers that are idle / hold an item / want to report an
  error / have exited matter. Every send selects on ctx.Done() (the `sendErr` helper and the guarded
  hand-overs; fact-checked in Generated/Facts.lean).

  The caller runs one waiter per stage: it returns when it has received an error from the stage's error
  channel (the errgroup then cancels its derived context), when that channel has been closed (the stage
  has wound down) or when the derived context is cancelled. When all waiters have returned the call
  returns, and its deferred `cancel()` cancels the context the workers watch.
-/
namespace Gtree.Net

structure Stg where
  idle      : Nat      -- workers waiting for an item
  send      : Nat      -- workers holding a processed item for the next stage
  err       : Nat      -- workers blocked on sending an error
  done      : Nat      -- workers that have exited
  outClosed : Bool     -- the stage's closer has closed its output channel and its error channel
  errbuf    : Bool     -- the one-slot buffer of the stage's error channel is full
  waiter    : Bool     -- the caller's waiter for this stage is still waiting
  failed    : Bool := false  -- (ghost) some item has failed in this stage
deriving Repr, DecidableEq

/-- the stage has wound down: no worker of it is alive -/
def Stg.quiet (s : Stg) : Prop := s.idle = 0 ∧ s.send = 0 ∧ s.err = 0

structure Net where
  todo      : Nat          -- items the source still has to hand over
  srcClosed : Bool         -- the source has closed its channel
  stages    : List Stg     -- upstream first
  cancelled : Bool         -- ctx.Done() (what the workers watch) is closed
  ecancel   : Bool         -- the errgroup's derived context is cancelled
  returned  : Bool
  sawErr    : Bool := false  -- (ghost) a waiter has received a stage's error: eg.Wait() returns it
  callerCancelled : Bool := false  -- (ghost) the caller's context was cancelled before the call returned
deriving Repr, DecidableEq

/-- a worker of stage `b` has just taken an item: it processes it and ends up holding the result
    (or, in the last stage, idle again), or wanting to report an error -/
inductive Outcome (last : Bool) : Stg → Stg → Prop
  | ok   (b : Stg) : b.idle > 0 → last = false → Outcome last b { b with idle := b.idle - 1, send := b.send + 1 }
  | okLast (b : Stg) : b.idle > 0 → last = true → Outcome last b b
  | fail (b : Stg) : b.idle > 0 → Outcome last b { b with idle := b.idle - 1, err := b.err + 1, failed := true }

/-- transitions of the library's goroutines -/
inductive SysStep : Net → Net → Prop
  /-- the source hands an item to a worker of the first stage -/
  | feed (n : Net) (a a' : Stg) (post : List Stg) :
      n.stages = a :: post → n.todo > 0 → n.srcClosed = false → Outcome post.isEmpty a a' →
      SysStep n { n with todo := n.todo - 1, stages := a' :: post }
  /-- the source is exhausted or saw the cancellation: it closes its channel -/
  | srcDone (n : Net) : n.srcClosed = false → (n.todo = 0 ∨ n.cancelled = true) →
      SysStep n { n with srcClosed := true }
  /-- a worker of stage `b` takes the item a worker of stage `a` holds -/
  | handover (n : Net) (pre : List Stg) (a b b' : Stg) (post : List Stg) :
      n.stages = pre ++ a :: b :: post → a.send > 0 → Outcome post.isEmpty b b' →
      SysStep n { n with stages := pre ++ { a with send := a.send - 1, idle := a.idle + 1 } :: b' :: post }
  /-- a worker holding an item sees the cancellation and exits -/
  | sendGiveUp (n : Net) (pre : List Stg) (a : Stg) (post : List Stg) :
      n.stages = pre ++ a :: post → a.send > 0 → n.cancelled = true →
      SysStep n { n with stages := pre ++ { a with send := a.send - 1, done := a.done + 1 } :: post }
  /-- an idle worker of the first stage sees the source's channel closed, or the cancellation, and exits -/
  | idleExitFirst (n : Net) (a : Stg) (post : List Stg) :
      n.stages = a :: post → a.idle > 0 → (n.srcClosed = true ∨ n.cancelled = true) →
      SysStep n { n with stages := { a with idle := a.idle - 1, done := a.done + 1 } :: post }
  /-- an idle worker of a later stage sees its input closed, or the cancellation, and exits -/
  | idleExit (n : Net) (pre : List Stg) (p a : Stg) (post : List Stg) :
      n.stages = pre ++ p :: a :: post → a.idle > 0 → (p.outClosed = true ∨ n.cancelled = true) →
      SysStep n { n with stages := pre ++ p :: { a with idle := a.idle - 1, done := a.done + 1 } :: post }
  /-- all workers of stage `a` have exited: its closer closes its output and its error channel -/
  | closeOut (n : Net) (pre : List Stg) (a : Stg) (post : List Stg) :
      n.stages = pre ++ a :: post → a.quiet → a.outClosed = false →
      SysStep n { n with stages := pre ++ { a with outClosed := true } :: post }
  | errSend (n : Net) (pre : List Stg) (a : Stg) (post : List Stg) :
      n.stages = pre ++ a :: post → a.err > 0 → a.errbuf = false →
      SysStep n { n with stages := pre ++ { a with err := a.err - 1, done := a.done + 1, errbuf := true } :: post }
  | errGiveUp (n : Net) (pre : List Stg) (a : Stg) (post : List Stg) :
      n.stages = pre ++ a :: post → a.err > 0 → n.cancelled = true →
      SysStep n { n with stages := pre ++ { a with err := a.err - 1, done := a.done + 1 } :: post }
  /-- the waiter of a stage receives the error: the errgroup cancels its context -/
  | recvErr (n : Net) (pre : List Stg) (a : Stg) (post : List Stg) :
      n.stages = pre ++ a :: post → a.errbuf = true → a.waiter = true →
      SysStep n { n with stages := pre ++ { a with errbuf := false, waiter := false } :: post, ecancel := true, sawErr := true }
  /-- the waiter of a stage sees the stage's error channel closed (and drained) -/
  | recvClosed (n : Net) (pre : List Stg) (a : Stg) (post : List Stg) :
      n.stages = pre ++ a :: post → a.waiter = true → a.outClosed = true → a.errbuf = false →
      SysStep n { n with stages := pre ++ { a with waiter := false } :: post }
  | waiterCancel (n : Net) (pre : List Stg) (a : Stg) (post : List Stg) :
      n.stages = pre ++ a :: post → a.waiter = true → n.ecancel = true →
      SysStep n { n with stages := pre ++ { a with waiter := false } :: post }
  /-- all waiters are back: the call returns; the deferred cancel() fires -/
  | ret (n : Net) : n.returned = false → (∀ a ∈ n.stages, a.waiter = false) →
      SysStep n { n with returned := true, cancelled := true, ecancel := true }

/-- the environment: the caller's context may be cancelled at any instant -/
inductive EnvStep : Net → Net → Prop
  | cancel (n : Net) : n.cancelled = false → EnvStep n { n with cancelled := true, ecancel := true, callerCancelled := true }

def Step (n n' : Net) : Prop := SysStep n n' ∨ EnvStep n n'

inductive Reach (n0 : Net) : Net → Prop
  | refl : Reach n0 n0
  | step {n n'} : Reach n0 n → Step n n' → Reach n0 n'

/-- what the call returns (pipeline_tree.go, handlePipelineErr after 1d9ff75): the first stage error a waiter
    received, else the context's error if the caller cancelled, else nil -/
def Net.resultIsNil (n : Net) : Bool := !n.sawErr && !n.callerCancelled

/-- a fresh stage with `w` workers -/
def freshStg (w : Nat) : Stg :=
  { idle := w, send := 0, err := 0, done := 0, outClosed := false, errbuf := false, waiter := true, failed := false }

/-- `todo` items, one stage per entry of `workers` -/
def init (todo : Nat) (workers : List Nat) : Net :=
  { todo := todo, srcClosed := false, stages := workers.map freshStg, cancelled := false, ecancel := false, returned := false }

def b2n (b : Bool) : Nat := if b then 0 else 1

/-- weight of the stages: a held item weighs more the further it is from the end of the chain -/
def stagesMeasure : List Stg → Nat
  | [] => 0
  | s :: rest =>
    2 * s.idle + (rest.length + 3) * s.send + 2 * s.err + b2n s.outClosed + (if s.waiter then 1 else 0) +
      (if s.errbuf then 1 else 0) + stagesMeasure rest

def measure (n : Net) : Nat :=
  (n.stages.length + 3) * n.todo + stagesMeasure n.stages + b2n n.srcClosed + b2n n.cancelled + b2n n.ecancel + b2n n.returned

end Gtree.Net
