import Gtree.Model.Bytes
/-
  Abstract model of the massive-mode text printer (pipeline_tree_spreader.go: defaultSpreaderPipeline):
  workers take whole roots (blocks of lines) from the channel in any order; a worker prints its block
  line by line; `locked = true`: only while holding the mutex (`ds.Lock(); spreadBranch; ds.Unlock()`),
  `locked = false`: the regression variant without the mutex.
-/
namespace Gtree.Spread

abbrev Block := List Bytes   -- the lines of one root

structure St where
  pending : List Block            -- roots not yet taken by a worker
  waiting : List Block            -- taken, worker waiting for the lock (or, unlocked: in progress)
  cur     : Option Block          -- remaining lines of the lock holder
  out     : List Bytes            -- lines written so far
deriving Repr

inductive Step (locked : Bool) : St → St → Prop
  /-- a worker receives any pending root -/
  | take (s : St) (a : List Block) (b : Block) (c : List Block) : s.pending = a ++ b :: c →
      Step locked s { s with pending := a ++ c, waiting := b :: s.waiting }
  /-- a waiting worker gets the lock -/
  | acquire (s : St) (a : List Block) (b : Block) (c : List Block) : s.cur = none → s.waiting = a ++ b :: c →
      Step locked s { s with waiting := a ++ c, cur := some b }
  /-- the lock holder writes its next line -/
  | write (s : St) (l : Bytes) (ls : Block) : s.cur = some (l :: ls) →
      Step locked s { s with cur := some ls, out := s.out ++ [l] }
  /-- the lock holder is done and releases the lock -/
  | release (s : St) : s.cur = some [] → Step locked s { s with cur := none }
  /-- without the mutex: any worker in progress writes its next line -/
  | writeUnlocked (s : St) (a : List Block) (l : Bytes) (ls : Block) (c : List Block) : locked = false →
      s.waiting = a ++ (l :: ls) :: c →
      Step locked s { s with waiting := a ++ ls :: c, out := s.out ++ [l] }

inductive Reach (locked : Bool) (s0 : St) : St → Prop
  | refl : Reach locked s0 s0
  | step {s s'} : Reach locked s0 s → Step locked s s' → Reach locked s0 s'

def init (blocks : List Block) : St := { pending := blocks, waiting := [], cur := none, out := [] }

/-- everything has been printed -/
def Final (s : St) : Prop := s.pending = [] ∧ s.waiting = [] ∧ s.cur = none

end Gtree.Spread
