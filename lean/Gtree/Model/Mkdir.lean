import Gtree.Model.FS
import Gtree.Model.Spread
/-
  Model of simple_tree_mkdirer.go and simple_tree_verifier.go over the finite-map file system.
-/
namespace Gtree

/-- `isExistRoot`: `!os.IsNotExist(err)` – any outcome of Stat other than "does not exist" counts as existing -/
def rootExists (fs : FS) (target : Bytes) (rootPath : Bytes) : Bool :=
  match fs.stat (filepathJoin [target, rootPath]) with
  | .error .notExist => false
  | _ => true

/-- `makeDirectoriesAndFiles` on the grown nodes of one root, pre-order:
    a file leaf ⇒ MkdirAll(parent) + Create; a childless directory ⇒ MkdirAll; an inner node ⇒ nothing itself. -/
def mkNodes (target : Bytes) (exts : List Bytes) : FS → List Visit → FS × Option FErr
  | fs, [] => (fs, none)
  | fs, v :: vs =>
    if isFileNode exts v.name v.hasChild then
      let dir := trimSuffix v.path v.name
      match fs.mkdirAll (filepathJoin [target, dir]) with
      | (fs1, some e) => (fs1, some e)
      | (fs1, none) =>
        match fs1.create (filepathJoin [target, v.path]) with
        | (fs2, some e) => (fs2, some e)
        | (fs2, none) => mkNodes target exts fs2 vs
    else if !v.hasChild then
      match fs.mkdirAll (filepathJoin [target, v.path]) with
      | (fs1, some e) => (fs1, some e)
      | (fs1, none) => mkNodes target exts fs1 vs
    else mkNodes target exts fs vs

inductive MkErr where
  | exist
  | os (e : FErr)
deriving Repr, DecidableEq, BEq

/-- `isExistRoot(roots)`: does any root exist already -/
def anyRootExists (fs : FS) (target : Bytes) (roots : List (List Visit)) : Bool :=
  roots.any (fun vs => match vs.head? with
      | some r => rootExists fs target r.path
      | none => false)

/-- `defaultMkdirerSimple.mkdir` on grown roots (each given by its visits) -/
def mkdirRoots (fs : FS) (target : Bytes) (exts : List Bytes) (roots : List (List Visit)) : FS × Option MkErr :=
  if anyRootExists fs target roots then (fs, some .exist)
  else
    let rec go (fs : FS) : List (List Visit) → FS × Option MkErr
      | [] => (fs, none)
      | vs :: rest => match mkNodes target exts fs vs with
        | (fs1, some e) => (fs1, some (.os e))
        | (fs1, none) => go fs1 rest
    go fs roots

/-- result of `verifyRoot` + `handleErr` for one root -/
structure VerifyDiff where
  extra   : List Bytes
  missing : List Bytes
deriving Repr, DecidableEq, BEq

inductive VfErr where
  | diff (strict : Bool) (d : VerifyDiff)
  | os (e : FErr)
deriving Repr, DecidableEq, BEq

def verifyRoot (fs : FS) (target : Bytes) (vs : List Visit) : Except FErr VerifyDiff :=
  let want := vs.map (fun v => filepathJoin [target, v.path])
  match vs.head? with
  | none => .ok ⟨[], []⟩
  | some r =>
    let rootPath := filepathJoin [target, r.path]
    match fs.stat rootPath with
    | .ok (.file _) => .ok ⟨[], want.filter (fun p => p != rootPath)⟩
    | .ok .dir =>
      let have_ := rootPath :: fs.under rootPath
      .ok ⟨have_.filter (fun p => !want.contains p), want.filter (fun p => !have_.contains p)⟩
    | .error .notExist => .ok ⟨[], want⟩
    | .error e => .error e

/-- `defaultVerifierSimple.verify`: the first root that differs (or fails) decides -/
def verifyRoots (fs : FS) (target : Bytes) (strict : Bool) : List (List Visit) → Option VfErr
  | [] => none
  | vs :: rest =>
    match verifyRoot fs target vs with
    | .error e => some (.os e)
    | .ok d =>
      if (strict && !d.extra.isEmpty) || !d.missing.isEmpty then some (.diff strict d)
      else verifyRoots fs target strict rest

end Gtree
