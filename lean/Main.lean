import Gtree
import Gtree.Spec.MalformedErr
open Gtree Gtree.Codec

def showOut (o : Out) : String := "w=" ++ hexOf o.written ++ " e=" ++ showErr o.err

def inputOf (fail : String) (doc : Bytes) : Input := { doc := doc, fail := fail == "1" }

def wfOf (failAt short : String) : Option WFault := do
  let fa ← optNat failAt
  let sh ← short.toNat?
  pure { failAt := fa, short := sh }

def showPR : Except PErr (Nat × Bytes) → String
  | .ok (h, t) => "ok:" ++ toString h ++ ":" ++ hexOf t
  | .error .blank => "blank"
  | .error .emptyText => "empty"
  | .error .incorrect => "bad"

def parseRowsShow (rows : List Bytes) : String :=
  let rec go (st : PState) : List Bytes → List String
    | [] => []
    | r :: rs => let (st', res) := parse st r; showPR res :: go st' rs
  ",".intercalate (go {} rows)

/-- histories: N:<name> | A:<pid>:<name> | O:<id|nil> | W:<id|nil> | J:<id|nil> ; one result per op joined by ';' -/
def histRun (f : Fmt) (ops : List String) : Option String := do
  let idOf (s : String) : Option (Option Nat) := if s == "nil" then some none else s.toNat?.map some
  let rec go (st : Store) : List String → Option (List String)
    | [] => some []
    | op :: rest =>
      match op.splitOn ":" with
      | ["N", n] => do
        let n ← unhex n
        let (st', id) := st.newRoot n
        let r ← go st' rest
        pure (("id=" ++ toString id) :: r)
      | ["A", pid, n] => do
        let pid ← pid.toNat?
        let n ← unhex n
        let (st', id) := st.add pid n
        let r ← go st' rest
        pure (("id=" ++ (match id with | some i => toString i | none => "none")) :: r)
      | ["O", id] => do
        let id ← idOf id
        let (st', o) := st.fromRoot id (fun t => showOut (outputRootText f t {})) (fun e => "w=- e=" ++ showErr (some e))
        let r ← go st' rest
        pure (o :: r)
      | ["W", id] => do
        let id ← idOf id
        let (st', o) := st.fromRoot id (fun t => let (vs, e) := walkRoot f t none; "v=" ++ showVisits vs ++ " e=" ++ showErr e)
          (fun e => "v=_ e=" ++ showErr (some e))
        let r ← go st' rest
        pure (o :: r)
      | ["D", id] => do
        let id ← idOf id
        let (st', o) := st.fromRoot id (fun t => "e=" ++ showErr (mkdirRootsApi f [] [0x74] true [t] []).err) (fun e => "e=" ++ showErr (some e))
        let r ← go st' rest
        pure (o :: r)
      | ["V", id] => do
        let id ← idOf id
        let cls (e : Option Err) : String := String.ofList ((showErr e).toList.takeWhile (· != ':'))
        let (st', o) := st.fromRoot id (fun t => "e=" ++ cls (verifyRootsApi f (strBytes "/nonexistent-verif-target") false [t] []))
          (fun e => "e=" ++ cls (some e))
        let r ← go st' rest
        pure (o :: r)
      | ["J", id] => do
        let id ← idOf id
        let (st', o) := st.fromRoot id (fun t => "f=" ++ showF (toFormatted t) ++ " e=nil") (fun e => "f=_ e=" ++ showErr (some e))
        let r ← go st' rest
        pure (o :: r)
      | _ => none
  let rs ← go {} ops
  pure ("#".intercalate rs)

def subOf : String → Option Sub
  | "output" => some .output | "mkdir" => some .mkdir | "verify" => some .verify | "template" => some .template | _ => none
def stageOf : String → Option CliStage
  | "usage" => some .usage | "opts" => some .opts | "open" => some .open_ | "ok" => some (.lib true) | "fail" => some (.lib false) | _ => none

def handle (words : List String) : Option String :=
  match words with
  | ["scan", doc] => do
    let d ← unhex doc
    let s := scanLines d
    pure (hexList s.rows ++ " toolong=" ++ (if s.tooLong then "1" else "0"))
  | ["split", doc] => do
    let d ← unhex doc
    let s := scanLines d
    -- each block as the splitter sends it: every row followed by LF
    let blocks := (splitBlocks s.rows).map (fun rows => (rows.map (fun r => r ++ [lf])).flatten)
    pure (hexList blocks ++ " toolong=" ++ (if s.tooLong then "1" else "0"))
  | ["malformed", doc] => do
    -- the declarative judgement (Spec/Malformed.lean): the error the first malformed row stands for, and its class
    let d ← unhex doc
    let s := scanLines d
    pure (match firstMalformed {} s.rows with
      | some (r, m) => showErr (some (Err.gen (toGErr (r, m)))) ++ " class=" ++ (match m with
          | .noBullet => "noBullet" | .emptyText => "emptyText" | .badIndent => "badIndent" | .jump => "jump" | .orphan => "orphan")
      | none => (if s.tooLong then "toolong" else "nil") ++ " class=none")
  | ["blank", b] => do let b ← unhex b; pure (if isBlank b then "1" else "0")
  | ["parserows", rows] => do let rs ← unhexList rows; pure (parseRowsShow rs)
  | ["clean", p] => do let p ← unhex p; pure (hexOf (pathClean p))
  | ["join", l] => do let l ← unhexList l; pure (hexOf (pathJoin l))
  | ["validpath", p] => do let p ← unhex p; pure (if fsValidPath p then "1" else "0")
  | ["utf8", p] => do let p ← unhex p; pure (if utf8Valid p then "1" else "0")
  | ["gen", fail, doc] => do
    let d ← unhex doc
    let g := generate (inputOf fail d)
    pure ("roots=" ++ String.join (g.roots.map showT) ++ " e=" ++ showErr (g.err.map Err.gen))
  | ["out", mode, fmt, exts, fail, wfail, short, doc] => do
    let f ← fmtOf (← unhexList fmt)
    let exts ← unhexList exts
    let d ← unhex doc
    let wf ← wfOf wfail short
    let inp := inputOf fail d
    match mode with
    | "iter-text" => pure (showOut (outputIter (textJob f) inp wf))
    | "iter-dry" => pure (showOut (outputIter (dryJob f exts) inp wf))
    | "batch-text" => pure (showOut (outputBatch (textJob f) false inp wf))
    | "batch-dry" => pure (showOut (outputBatch (dryJob f exts) true inp wf))
    | _ => none
  | ["outf", fail, doc] => do
    let d ← unhex doc
    let (fs, e) := outputFormatted (inputOf fail d)
    pure ("f=" ++ (if fs.isEmpty then "_" else String.join (fs.map showF)) ++ " e=" ++ showErr e)
  | ["outjson", fail, doc] => do
    let d ← unhex doc
    let (fs, e) := outputFormatted (inputOf fail d)
    pure ("j=" ++ jsonOf fs ++ " e=" ++ showErr e)
  | ["jsonread", text] => do
    let b ← unhex text
    pure ("f=" ++ jsonRead b)
  | ["rootjson", tree] => do
    let t ← treeOf tree
    pure ("j=" ++ jsonOf [toFormatted t] ++ " e=nil")
  | ["walk", fmt, fail, failAt, doc] => do
    let f ← fmtOf (← unhexList fmt)
    let d ← unhex doc
    let fa ← optNat failAt
    let (vs, e) := walkMd f (inputOf fail d) fa
    pure ("v=" ++ showVisits vs ++ " e=" ++ showErr e)
  | ["rootout", fmt, wfail, short, tree] => do
    let f ← fmtOf (← unhexList fmt)
    let t ← treeOf tree
    let wf ← wfOf wfail short
    pure (showOut (outputRootText f t wf))
  | ["rootf", tree] => do
    let t ← treeOf tree
    pure ("f=" ++ showF (toFormatted t) ++ " e=nil")
  | ["rootwalk", fmt, failAt, tree] => do
    let f ← fmtOf (← unhexList fmt)
    let t ← treeOf tree
    let fa ← optNat failAt
    let (vs, e) := walkRoot f t fa
    pure ("v=" ++ showVisits vs ++ " e=" ++ showErr e)
  | ["rootiter", fmt, brk, tree] => do
    let f ← fmtOf (← unhexList fmt)
    let t ← treeOf tree
    let b ← optNat brk
    pure ("v=" ++ showVisits (walkIterRoot f t b) ++ " e=nil")
  | ["mkdir", fmt, exts, target, dry, fs, fail, doc] => do
    let f ← fmtOf (← unhexList fmt)
    let exts ← unhexList exts
    let target ← unhex target
    let fs ← parseFS fs
    let d ← unhex doc
    let o := mkdirMd f exts target (dry == "1") (inputOf fail d) fs
    pure ("fs=" ++ showFS o.fs ++ " w=" ++ hexOf o.written ++ " e=" ++ showErr o.err)
  | ["mkdirroot", fmt, exts, target, dry, fs, tree] => do
    let f ← fmtOf (← unhexList fmt)
    let exts ← unhexList exts
    let target ← unhex target
    let fs ← parseFS fs
    let t ← treeOf tree
    let o := mkdirRootsApi f exts target (dry == "1") [t] fs
    pure ("fs=" ++ showFS o.fs ++ " w=" ++ hexOf o.written ++ " e=" ++ showErr o.err)
  | ["verify", target, strict, fs, fail, doc] => do
    let target ← unhex target
    let fs ← parseFS fs
    let d ← unhex doc
    pure ("e=" ++ showErr (verifyMd Fmt.default target (strict == "1") (inputOf fail d) fs))
  | ["verifyroot", target, strict, fs, tree] => do
    let target ← unhex target
    let fs ← parseFS fs
    let t ← treeOf tree
    pure ("e=" ++ showErr (verifyRootsApi Fmt.default target (strict == "1") [t] fs))
  | ["wasm", mode, fmt, exts, fail, doc] => do
    let f ← fmtOf (← unhexList fmt)
    let exts ← unhexList exts
    let d ← unhex doc
    let inp := inputOf fail d
    match mode with
    | "text" => pure (showOut (wasmOutput f false exts inp))
    | "dry" => pure (showOut (wasmOutput f true exts inp))
    | "json" =>
      let (fs, e) := wasmOutputFormatted inp
      pure ("f=" ++ (if fs.isEmpty then "_" else String.join (fs.map showF)) ++ " e=" ++ showErr e)
    | _ => none
  | ["cli", sub, dry, stage] => do
    let sub ← subOf sub
    let st ← stageOf stage
    pure (toString (exitStatus sub (dry == "1") st))
  | ["hist", fmt, ops] => do
    let f ← fmtOf (← unhexList fmt)
    histRun f (ops.splitOn ";")
  | _ => none

partial def loop (hin hout : IO.FS.Stream) : IO Unit := do
  let line ← hin.getLine
  if line.isEmpty then return ()
  let words := (line.trimAscii.toString.splitOn " ").filter (· ≠ "")
  match handle words with
  | some out => hout.putStrLn out
  | none => hout.putStrLn "bad-op"
  hout.flush
  loop hin hout

def main : IO Unit := do
  loop (← IO.getStdin) (← IO.getStdout)
