package main

import (
	"math/rand"
	"strings"
)

var nameClasses = map[string][]string{
	"plain":   {"a", "b", "c", "foo", "main.go", "README.md", "Makefile", "x1", "A", "makefile", "FOO", "Main.go", "\u212a", "k", "K"},
	"bullets": {"- x", "* y", "a-b", "+", "-", "*", "#tag", "x # y", "a - b * c + d", "--", "-x", "todo - later", "a * b", "p + q", "#1 bug", "##"},
	"blanks":  {" lead", "trail ", "in  side", "\ttab", " ", "a\tb", "  two"},
	"unicode": {"caf\ufffd.txt", "日本語", "é", "😀", "a\u00a0b", "\u3000x", "x\u2028y", "\u0085n", "ｆｕｌｌ", "\u00a0"},
	"quotes":  {`C:\u003cache`, `a\u0026b`, `\u003e`, `"q"`, "a: b", `back\slash`, "x\x01y", "'s'", "{j}", "[l]", "null", "true", "1.5", "k=v", "a,b", "<a>&b", "x<y", "R&D", "100%", "%d", "%s%v", "cpu%d.log"},
	"path":    {"..", ".", "a/b", "/abs", "x/", "...", ".hidden", "a..b"},
}

var classOrder = []string{"plain", "bullets", "blanks", "unicode", "quotes", "path"}

func randName(r *rand.Rand, classes []string) (string, string) {
	cl := classes[r.Intn(len(classes))]
	l := nameClasses[cl]
	return l[r.Intn(len(l))], cl
}

// randForest draws a forest with about n nodes.
func randForest(r *rand.Rand, n int, classes []string, maxRoots int, dist map[string]int) []*Tree {
	if n < 1 {
		n = 1
	}
	nroots := 1 + r.Intn(maxRoots)
	var roots []*Tree
	var all []*Tree
	for i := 0; i < n; i++ {
		name, cl := randName(r, classes)
		if dist != nil {
			dist["name:"+cl]++
		}
		t := &Tree{Name: name}
		if len(roots) < nroots && (i < nroots) {
			roots = append(roots, t)
		} else {
			// attach under a random earlier node, biased to recent ones (gives depth)
			var p *Tree
			if r.Intn(3) == 0 {
				p = all[r.Intn(len(all))]
			} else {
				lo := len(all) - 4
				if lo < 0 {
					lo = 0
				}
				p = all[lo+r.Intn(len(all)-lo)]
			}
			p.Kids = append(p.Kids, t)
		}
		all = append(all, t)
	}
	return roots
}

// spellings: a covering set of the notation family
func coveringSpellings() []Spelling {
	return []Spelling{
		{IndentChar: ' ', Unit: 2, Bullets: "-", FinalNL: true},
		{IndentChar: ' ', Unit: 4, Bullets: "-", FinalNL: true},
		{IndentChar: ' ', Unit: 1, Bullets: "-", FinalNL: true},
		{IndentChar: ' ', Unit: 3, Bullets: "*", FinalNL: true},
		{IndentChar: ' ', Unit: 8, Bullets: "+", FinalNL: false},
		{IndentChar: '\t', Unit: 1, Bullets: "-", FinalNL: true},
		{IndentChar: '\t', Unit: 2, Bullets: "-*+", FinalNL: true},
		{IndentChar: '\t', Unit: 1, Bullets: "+*", FinalNL: false},
		{IndentChar: ' ', Unit: 2, Bullets: "-*+", FinalNL: true, CRLF: true},
		{IndentChar: '\t', Unit: 1, Bullets: "*", FinalNL: false, CRLF: true},
		{IndentChar: ' ', Unit: 2, Bullets: "-", FinalNL: true, Sharp: true},
		{IndentChar: '\t', Unit: 1, Bullets: "*-", FinalNL: true, Sharp: true},
		{IndentChar: ' ', Unit: 4, Bullets: "+", FinalNL: false, Sharp: true, CRLF: true},
		{IndentChar: ' ', Unit: 2, Bullets: "-", FinalNL: true, BlankEvery: 1, BlankRow: ""},
		{IndentChar: ' ', Unit: 2, Bullets: "-", FinalNL: true, BlankEvery: 2, BlankRow: "   "},
		{IndentChar: '\t', Unit: 1, Bullets: "-", FinalNL: true, BlankEvery: 3, BlankRow: "\t"},
		{IndentChar: ' ', Unit: 2, Bullets: "*", FinalNL: true, BlankEvery: 2, BlankRow: "　", LeadBlank: true},
		{IndentChar: ' ', Unit: 2, Bullets: "-", FinalNL: true, LeadBlank: true, BlankRow: " \t "},
		{IndentChar: ' ', Unit: 5, Bullets: "-+", FinalNL: true, BlankEvery: 4, BlankRow: " "},
		{IndentChar: '\t', Unit: 3, Bullets: "-", FinalNL: false},
		{IndentChar: ' ', Unit: 2, Bullets: "+", FinalNL: true, Sharp: true, BlankEvery: 2, BlankRow: ""},
		{IndentChar: ' ', Unit: 6, Bullets: "*", FinalNL: true, CRLF: true, BlankEvery: 3, BlankRow: "  "},
		{IndentChar: '\t', Unit: 1, Bullets: "-", FinalNL: true, Sharp: true, LeadBlank: true, BlankRow: ""},
		{IndentChar: ' ', Unit: 7, Bullets: "-*", FinalNL: false},
		{IndentChar: ' ', Unit: 2, Bullets: "-", FinalNL: true, NoSpace: true},
		{IndentChar: ' ', Unit: 2, Bullets: "*", FinalNL: true, Sharp: true, LeadBlank: true, BlankRow: "  "},
		{IndentChar: ' ', Unit: 2, Bullets: "+*", FinalNL: true, BlankEvery: 3, BlankRow: "\u3000"},
		{IndentChar: '\t', Unit: 1, Bullets: "*+", FinalNL: true, NoSpace: true, Sharp: true},
	}
}

func randSpelling(r *rand.Rand) Spelling {
	s := Spelling{IndentChar: ' ', Unit: 1 + r.Intn(8), FinalNL: r.Intn(4) != 0}
	if r.Intn(3) == 0 {
		s.IndentChar = '\t'
		s.Unit = 1 + r.Intn(2)
	}
	s.Bullets = []string{"-", "*", "+", "-*+", "+-", "*-+-"}[r.Intn(6)]
	s.Sharp = r.Intn(4) == 0
	s.CRLF = r.Intn(4) == 0
	if r.Intn(3) == 0 {
		s.BlankEvery = 1 + r.Intn(4)
		s.BlankRow = []string{"", " ", "\t", "   ", "　", " \t"}[r.Intn(6)]
	}
	s.LeadBlank = r.Intn(5) == 0
	s.NoSpace = r.Intn(8) == 0
	return s
}

func allFormats() []Fmt4 {
	return []Fmt4{fmtDefault, fmtCustom, fmtEmpty, fmtMulti, fmtLookalike, fmtPercent,
		{"|", "| ", "|", "| "}, {"", " ", "", "  "}, {"ab", "abab", "ba", "ab"}, {"+", "+ ", "+-", "+ +"}, {"x\ny", "\n", "\t", " \n "}}
}

// lineFormats: the branch formats that keep one output line per node (no newline inside a branch string);
// suites that cut outputs into per-root blocks by counting lines use these.
func lineFormats() []Fmt4 {
	var out []Fmt4
	for _, f := range allFormats() {
		if !strings.Contains(f[0]+f[1]+f[2]+f[3], "\n") {
			out = append(out, f)
		}
	}
	return out
}

// forestsUpTo enumerates every ordered forest with 1..n nodes over the alphabet.
func forestsUpTo(n int, alphabet []string) [][]*Tree {
	var out [][]*Tree
	for k := 1; k <= n; k++ {
		enumForests(k, alphabet, func(f []*Tree) { out = append(out, f) })
	}
	return out
}

func docText(doc []byte) string {
	s := string(doc)
	if len(s) > 200 {
		s = s[:200] + "…"
	}
	return strings.ToValidUTF8(s, "�")
}

func distinctRoots(f []*Tree) bool {
	seen := map[string]bool{}
	for _, t := range f {
		if seen[t.Name] {
			return false
		}
		seen[t.Name] = true
	}
	return true
}

// bigShapes: forests that are large in one dimension each (depth, fan-out, number of roots, name length, total size).
func bigShapes() map[string][]*Tree {
	out := map[string][]*Tree{}
	// a chain 14 deep with a sibling at every level
	deep := &Tree{Name: "d0"}
	cur := deep
	for i := 1; i < 14; i++ {
		next := &Tree{Name: "d" + fmtInt(i)}
		cur.Kids = []*Tree{{Name: "s" + fmtInt(i)}, next, {Name: "t" + fmtInt(i), Kids: []*Tree{{Name: "leaf.go"}}}}
		cur = next
	}
	out["deep"] = []*Tree{deep}
	wide := &Tree{Name: "wide"}
	for i := 0; i < 300; i++ {
		k := &Tree{Name: "k" + fmtInt(i)}
		if i%37 == 0 {
			k.Kids = []*Tree{{Name: "x.go"}, {Name: "y"}}
		}
		wide.Kids = append(wide.Kids, k)
	}
	out["wide"] = []*Tree{wide}
	var many []*Tree
	for i := 0; i < 27; i++ {
		many = append(many, &Tree{Name: "r" + fmtInt(i), Kids: []*Tree{{Name: "a", Kids: []*Tree{{Name: "b.go"}, {Name: "c", Kids: []*Tree{{Name: "d"}}}}}, {Name: "e" + fmtInt(i%5)}}})
	}
	out["many-roots"] = many
	out["long-names"] = []*Tree{{Name: strings.Repeat("n", 300), Kids: []*Tree{{Name: strings.Repeat("m", 5000) + ".go"}, {Name: "short", Kids: []*Tree{{Name: strings.Repeat("é", 200)}}}}}}
	var huge []*Tree
	for i := 0; i < 1500; i++ {
		t := &Tree{Name: "h" + fmtInt(i)}
		for j := 0; j < 6; j++ {
			t.Kids = append(t.Kids, &Tree{Name: "child-" + fmtInt(j) + "-" + strings.Repeat("z", 20), Kids: []*Tree{{Name: "g.go"}}})
		}
		huge = append(huge, t)
	}
	out["huge"] = huge
	return out
}

var bigShapeOrder = []string{"deep", "wide", "many-roots", "long-names", "huge"}
