package main

import (
	"bytes"
	"context"
	"encoding/json"
	"fmt"
	"os"
	"path/filepath"
	"regexp"
	"sort"
	"strings"

	"github.com/ddddddO/gtree"
)

func init() {
	replayers["mkdir-then-verify"] = func(m *Model, raw json.RawMessage) []Diff {
		var c Case
		json.Unmarshal(raw, &c)
		return runMkdirThenVerify(c)
	}
	replayers["dry-predicts-real"] = func(m *Model, raw json.RawMessage) []Diff {
		var c Case
		json.Unmarshal(raw, &c)
		return runDryPredictsReal(c)
	}
}

// C08: "a tree just created by Mkdir with any extension list verifies strictly" – on the real code.
func runMkdirThenVerify(c Case) []Diff {
	orig := c.Exts
	c.Exts = ownExts(orig)
	return append(runMkdirThenVerify1(c), extsDiff(orig, c.Exts)...)
}

func runMkdirThenVerify1(c Case) []Diff {
	jail := newJail()
	defer os.RemoveAll(jail)
	target := filepath.Join(jail, c.Target)
	opts := []gtree.Option{gtree.WithTargetDir(target), gtree.WithFileExtensions(c.Exts)}
	if err := gtree.MkdirFromMarkdown(bytes.NewReader(c.doc()), opts...); err != nil {
		return []Diff{{What: "mkdir of a valid tree into a fresh target failed", Real: classify(err), Model: "nil"}}
	}
	var d []Diff
	for _, strict := range []bool{true, false} {
		o := []gtree.Option{gtree.WithTargetDir(target)}
		if strict {
			o = append(o, gtree.WithStrictVerify())
		}
		if err := gtree.VerifyFromMarkdown(bytes.NewReader(c.doc()), o...); err != nil {
			d = append(d, Diff{What: fmt.Sprintf("verify(strict=%v) right after mkdir", strict), Real: err.Error(), Model: "nil"})
		}
	}
	return d
}

var summaryRe = regexp.MustCompile(`(?m)^(\d+) directories, (\d+) files$`)

// C09: the dry-run counts equal what a real Mkdir with the same extensions creates, and dry run
// rejects iff the real run rejects because of names – on the real code.
func runDryPredictsReal(c Case) []Diff {
	// one slice of the caller's for the dry run, the real run and the massive dry run, as a caller would reuse it
	orig := c.Exts
	c.Exts = ownExts(orig)
	return append(runDryPredictsReal1(c), extsDiff(orig, c.Exts)...)
}

func runDryPredictsReal1(c Case) []Diff {
	var rep bytes.Buffer
	derr := gtree.OutputFromMarkdown(&rep, bytes.NewReader(c.doc()), gtree.WithDryRun(), gtree.WithFileExtensions(c.Exts))
	jail := newJail()
	defer os.RemoveAll(jail)
	target := filepath.Join(jail, c.Target)
	merr := gtree.MkdirFromMarkdown(bytes.NewReader(c.doc()), gtree.WithTargetDir(target), gtree.WithFileExtensions(c.Exts))
	dcls, mcls := errClass(classify(derr)), errClass(classify(merr))
	nameErr := func(s string) bool { return s == "invalidname" || s == "invalidpath" }
	var d []Diff
	if nameErr(dcls) != nameErr(mcls) {
		d = append(d, Diff{What: "dry run and real run disagree about the names", Real: "dry=" + classify(derr) + " real=" + classify(merr), Model: "same verdict"})
	}
	// the same dry run with the massive option gives the same verdict about the names
	var mrep lockedBuf
	mderr := gtree.OutputFromMarkdown(&mrep, bytes.NewReader(c.doc()), gtree.WithDryRun(), gtree.WithFileExtensions(c.Exts), gtree.WithMassive(context.Background()))
	if mderr == nil && derr == nil {
		a, b := splitLines(rep.Bytes()), splitLines(mrep.finish())
		sort.Strings(a)
		sort.Strings(b)
		if strings.Join(a, "") != strings.Join(b, "") {
			d = append(d, Diff{What: "massive dry-run report differs from the simple one (as multisets of lines)", Real: hx(mrep.finish()), Model: hx(rep.Bytes())})
		}
	}
	if nameErr(errClass(classify(mderr))) != nameErr(dcls) {
		d = append(d, Diff{What: "dry run with the massive option disagrees with the simple dry run about the names", Real: "massive dry=" + classify(mderr), Model: "simple dry=" + classify(derr)})
	}
	// the CLI route: `gtree mkdir --dry-run` into a target that does not exist creates nothing, prints the same report
	if c.Note == "cli" {
		cj := newJail()
		defer os.RemoveAll(cj)
		args := []string{"mkdir", "--dry-run", "--target-dir", filepath.Join(cj, "missing", "t")}
		for _, e := range c.Exts {
			args = append(args, "-e", e)
		}
		before := snapshot(cj)
		run := execCli(cliBinary(), cj, args, c.doc(), "pipe")
		after := snapshot(cj)
		if strings.Join(before, ",") != strings.Join(after, ",") {
			d = append(d, Diff{What: "gtree mkdir --dry-run changed the file system", Real: strings.Join(after, ","), Model: strings.Join(before, ",")})
		}
		if (run.code == 0) != (derr == nil) || run.crashed {
			d = append(d, Diff{What: "gtree mkdir --dry-run: exit status disagrees with the library's dry run", Real: fmt.Sprintf("exit %d stderr=%q", run.code, run.stderr), Model: "library: " + classify(derr)})
		}
		if derr == nil && run.code == 0 && !bytes.Equal(run.stdout, rep.Bytes()) {
			d = append(d, Diff{What: "gtree mkdir --dry-run prints something else than the library's dry-run report", Real: hx(run.stdout), Model: hx(rep.Bytes())})
		}
	}
	if derr != nil || merr != nil {
		if derr == nil && !nameErr(mcls) {
			// the real run failed for another reason (e.g. the OS refused a name); nothing to compare
			return d
		}
		return d
	}
	// counts
	var wantDirs, wantFiles int
	for _, mm := range summaryRe.FindAllStringSubmatch(rep.String(), -1) {
		var a, b int
		fmt.Sscan(mm[1], &a)
		fmt.Sscan(mm[2], &b)
		wantDirs += a
		wantFiles += b
	}
	var gotDirs, gotFiles int
	for _, e := range snapshot(jail) {
		p := string(unhx(strings.SplitN(e, ":", 2)[0]))
		if p == target {
			continue
		}
		if strings.HasSuffix(e, ":d") {
			gotDirs++
		} else {
			gotFiles++
		}
	}
	if wantDirs != gotDirs || wantFiles != gotFiles {
		d = append(d, Diff{What: "dry-run counts differ from what mkdir created", Real: fmt.Sprintf("created %d directories, %d files", gotDirs, gotFiles), Model: fmt.Sprintf("predicted %d directories, %d files", wantDirs, wantFiles)})
	}
	// the report is the plain tree text followed per root by the summary
	var plain bytes.Buffer
	gtree.OutputFromMarkdown(&plain, bytes.NewReader(c.doc()))
	stripped := summaryRe.ReplaceAllString(rep.String(), "")
	stripped = strings.ReplaceAll(stripped, "\n\n\n", "\n")
	if strings.TrimRight(stripped, "\n") != strings.TrimRight(plain.String(), "\n") {
		d = append(d, Diff{What: "dry-run report is not the plain tree text + summaries", Real: hx(rep.Bytes()), Model: hx(plain.Bytes())})
	}
	return d
}
