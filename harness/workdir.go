package main

import (
	"bytes"
	"os"
	"path/filepath"
	"sort"
	"strings"
	"sync"

	"github.com/ddddddO/gtree"
)

// The harness process works inside a directory of its own under the scratch root: no library call is ever
// given a path relative to it, so whatever appears, changes or disappears in it was done by a call that was
// told to work somewhere else (C06: nothing else is created; C07: nothing outside the target directory is
// created, modified or deleted; C09: a dry run creates nothing). The directory holds sentinel entries named
// like the roots of the cases (a directory with a file and a sub-directory inside): a Mkdir that resolves
// the path of a root against the working directory instead of the target directory meets them.

var workDir string

// cwdGuard: the per-case check of the sentinels is part of the properties about what Mkdir touches
var cwdGuard bool

const sentinelText = "sentinel: this entry of the working directory belongs to nobody's target directory\n"

var sentinels = struct {
	sync.Mutex
	names map[string]bool
}{names: map[string]bool{}}

// enterWorkDir creates the working directory under the scratch root and moves the process into it.
func enterWorkDir() {
	d := filepath.Join(scratch(), "wd")
	if err := os.MkdirAll(d, 0o755); err != nil {
		panic(err)
	}
	if err := os.Chdir(d); err != nil {
		panic(err)
	}
	workDir = d
	// the root names the suites use most
	for _, n := range []string{"r", "n0", "a", "b", "root", "ok", "t", "w", "v", "proj", "r0", "r1", "wide", "d0", "k", "x", "h0", "fat0", "\\", "con", "...", "..a", "a\\b"} {
		ensureSentinel(n)
	}
}

// sentinelName: can this root name be an entry of the working directory?
func sentinelName(n string) bool {
	return n != "" && n != "." && n != ".." && len(n) <= 200 && !strings.ContainsAny(n, "/\x00")
}

// sentinelDamage: damage that was found (and repaired) when a later case wanted the same sentinel; reported at the end
var sentinelDamage []string

// ensureSentinel makes sure <workDir>/<name>/{keep.txt, sub/inner.txt} exists; false if the name cannot be an entry.
// A sentinel that an earlier case damaged is noted and made again, so that every case is judged by what it did itself.
func ensureSentinel(name string) bool {
	if workDir == "" || !sentinelName(name) {
		return false
	}
	sentinels.Lock()
	defer sentinels.Unlock()
	p := filepath.Join(workDir, name)
	if sentinels.names[name] {
		what := sentinelIntact(name)
		if what == "" {
			return true
		}
		sentinelDamage = append(sentinelDamage, what)
		os.RemoveAll(p)
	}
	if err := os.MkdirAll(filepath.Join(p, "sub"), 0o755); err != nil {
		return false
	}
	if os.WriteFile(filepath.Join(p, "keep.txt"), []byte(sentinelText), 0o644) != nil || os.WriteFile(filepath.Join(p, "sub", "inner.txt"), []byte(sentinelText), 0o644) != nil {
		os.RemoveAll(p)
		return false
	}
	sentinels.names[name] = true
	return true
}

// sentinelIntact: "" when the sentinel is as it was made, otherwise what is wrong with it
func sentinelIntact(name string) string {
	p := filepath.Join(workDir, name)
	for _, f := range []string{"keep.txt", filepath.Join("sub", "inner.txt")} {
		b, err := os.ReadFile(filepath.Join(p, f))
		if err != nil {
			return filepath.Join(name, f) + ": " + err.Error()
		}
		if string(b) != sentinelText {
			return filepath.Join(name, f) + ": content changed"
		}
	}
	for _, dir := range []string{p, filepath.Join(p, "sub")} {
		es, err := os.ReadDir(dir)
		if err != nil {
			return dir + ": " + err.Error()
		}
		if len(es) != pickInt(dir == p, 2, 1) {
			var ns []string
			for _, e := range es {
				ns = append(ns, e.Name())
			}
			return strings.TrimPrefix(dir, workDir+"/") + " now holds " + strings.Join(ns, " ")
		}
	}
	return ""
}

func pickInt(b bool, x, y int) int {
	if b {
		return x
	}
	return y
}

// rootNamesOfDoc: the names of the roots of a document (as the simple mode reads it; nil when it is rejected)
func rootNamesOfDoc(doc []byte) []string {
	var out []string
	err := gtree.WalkFromMarkdown(bytes.NewReader(doc), func(wn *gtree.WalkerNode) error {
		if wn.Level() == 1 {
			out = append(out, wn.Name())
		}
		return nil
	})
	if err != nil {
		return nil
	}
	return out
}

// guardWorkDir is called before a Mkdir / Verify case with a target directory that is not the working directory:
// it plants sentinels named like the case's roots and returns the check to run after the call.
func guardWorkDir(c Case) func() []Diff {
	if workDir == "" || !cwdGuard {
		return func() []Diff { return nil }
	}
	var names []string
	if c.FromRoot && c.Tree != "" {
		names = []string{parseTreeEnc(c.Tree).Name}
	} else if c.Doc != "" {
		names = rootNamesOfDoc(c.doc())
	}
	var planted []string
	for _, n := range names {
		if len(planted) < 8 && ensureSentinel(n) {
			planted = append(planted, n)
		}
	}
	return func() []Diff {
		var d []Diff
		for _, n := range planted {
			if what := sentinelIntact(n); what != "" {
				d = append(d, Diff{What: "an entry of the process's working directory, outside the target directory, was touched (it has the name of a root of the tree)", Real: what, Model: "untouched: " + filepath.Join(workDir, n)})
			}
		}
		return d
	}
}

// workDirDiffs: the working directory holds exactly the sentinels, all intact.
func workDirDiffs() []Diff {
	if workDir == "" {
		return nil
	}
	sentinels.Lock()
	names := make([]string, 0, len(sentinels.names))
	for n := range sentinels.names {
		names = append(names, n)
	}
	sentinels.Unlock()
	sort.Strings(names)
	var d []Diff
	sentinels.Lock()
	for _, what := range sentinelDamage {
		if len(d) < 3 {
			d = append(d, Diff{What: "an entry of the process's working directory was touched by a call that was given another target directory (found damaged by a later case)", Real: what, Model: "untouched"})
		}
	}
	sentinels.Unlock()
	for _, n := range names {
		if what := sentinelIntact(n); what != "" {
			d = append(d, Diff{What: "an entry of the process's working directory was touched by a call that was given another target directory", Real: what, Model: "untouched"})
			if len(d) >= 5 {
				return d
			}
		}
	}
	es, err := os.ReadDir(workDir)
	if err != nil {
		return append(d, Diff{What: "the process's working directory cannot be read any more", Real: err.Error(), Model: "untouched"})
	}
	for _, e := range es {
		sentinels.Lock()
		ok := sentinels.names[e.Name()]
		sentinels.Unlock()
		if !ok {
			d = append(d, Diff{What: "something was created in the process's working directory, which no call was given as its target directory", Real: e.Name(), Model: "nothing"})
			if len(d) >= 5 {
				break
			}
		}
	}
	return d
}
