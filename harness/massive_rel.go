package main

import (
	"io"

	"bufio"
	"bytes"
	"context"
	"encoding/json"
	"fmt"
	"github.com/fatih/color"
	"os"
	"os/exec"
	"path/filepath"
	"sort"
	"strings"
	"sync"
	"time"

	"github.com/ddddddO/gtree"
)

// Massive-mode coverage for the properties whose quantifier includes {simple, massive}:
// the relation to simple mode is evaluated on the real code (the model has no concurrency).

func init() {
	replayers["massive-verdict"] = func(m *Model, raw json.RawMessage) []Diff {
		var c Case
		json.Unmarshal(raw, &c)
		return runMassiveVerdict(c)
	}
	replayers["massive-mkdir"] = func(m *Model, raw json.RawMessage) []Diff {
		var c Case
		json.Unmarshal(raw, &c)
		return runMassiveMkdir(c)
	}
}

// runMassiveVerdict (C02): massive mode rejects iff simple mode rejects, and when it accepts every
// non-blank row is represented (walk) – evaluated on the real code under a few schedules.
func runMassiveVerdict(c Case) []Diff {
	doc := c.doc()
	simple := gtree.WalkFromMarkdown(bytes.NewReader(doc), func(*gtree.WalkerNode) error { return nil })
	var d []Diff
	for rep := 0; rep < 3; rep++ {
		var mu sync.Mutex
		names := map[string]bool{}
		var err error
		switch c.Mode {
		case "walk":
			err = gtree.WalkFromMarkdown(bytes.NewReader(doc), func(wn *gtree.WalkerNode) error {
				mu.Lock()
				names[wn.Name()] = true
				mu.Unlock()
				return nil
			}, gtree.WithMassive(context.Background()))
		default:
			w := &faultWriter{failAt: -1}
			var opt gtree.Option
			if c.Mode == "json" {
				opt = gtree.WithEncodeJSON()
			}
			err = gtree.OutputFromMarkdown(w, bytes.NewReader(doc), gtree.WithMassive(context.Background()), opt)
			w.markReturned()
		}
		if (err == nil) != (simple == nil) {
			if simple == nil && mixesIndentChars(doc) {
				// known finding (D14): the parser shared by the generator workers remembers the indent
				// character across blocks; a document whose roots use different indent characters may be
				// rejected in massive mode only
				noteKnown("c02.massive-indent-char-switch-between-roots")
				break
			}
			if cls := errClass(classify(err)); simple == nil && (cls == "nilstack" || cls == "format") && listRootBeforeHeading(doc) {
				// known finding: whether an unindented list row before the first heading is a root depends on
				// whether another worker has already parsed a heading (parser shared by the generator workers):
				// once the heading mode is latched, the rows of the list block are one level deeper — the block's
				// root row meets no stack (`nil stack`), or a later row of it jumps a level (a format error naming
				// that row)
				noteKnown("c02.massive-list-roots-before-heading-roots")
				break
			}
			if err == nil && wrongCharRow(doc, simple) {
				// known finding: a row indented with the other blank than the document's is rejected by the
				// simple mode; in the massive mode another worker's root row may have reset the shared parser's
				// indent character in between, and the row is accepted
				noteKnown("c02.massive-accepts-wrong-indent-char")
				break
			}
			d = append(d, Diff{What: "massive mode rejects iff simple mode rejects (" + c.Mode + ")", Real: "massive: " + classify(err), Model: "simple: " + classify(simple)})
			break
		}
		if err == nil && c.Mode == "walk" {
			mu.Lock()
			for _, t := range c.Texts {
				if !names[t] {
					d = append(d, Diff{What: "silent loss in massive mode: row text " + t + " accepted (nil) but not visited", Real: "nil", Model: "represented"})
					break
				}
			}
			mu.Unlock()
		}
		if len(d) > 0 {
			break
		}
	}
	return d
}

// wrongCharRow: the simple mode's error names a row that is indented with the other blank than the first
// indented row of the document
func wrongCharRow(doc []byte, simpleErr error) bool {
	cls := classify(simpleErr)
	if !strings.HasPrefix(cls, "format:") {
		return false
	}
	row := unhx(strings.TrimPrefix(cls, "format:"))
	if len(row) == 0 || (row[0] != ' ' && row[0] != '\t') {
		return false
	}
	for _, l := range strings.Split(string(doc), "\n") {
		if len(l) > 0 && (l[0] == ' ' || l[0] == '\t') && strings.TrimSpace(l) != "" {
			return l[0] != row[0]
		}
	}
	return false
}

// mixesIndentChars: some row is indented with a tab and some other row with a space
// listRootBeforeHeading: an unindented list row comes before the first heading row
func listRootBeforeHeading(doc []byte) bool {
	list := false
	for _, l := range strings.Split(string(doc), "\n") {
		if strings.HasPrefix(l, "#") {
			return list
		}
		if strings.HasPrefix(l, "-") || strings.HasPrefix(l, "*") || strings.HasPrefix(l, "+") {
			list = true
		}
	}
	return false
}

func mixesIndentChars(doc []byte) bool {
	tab, space := false, false
	for _, l := range strings.Split(string(doc), "\n") {
		if strings.HasPrefix(l, "\t") {
			tab = true
		}
		if strings.HasPrefix(l, " ") {
			space = true
		}
	}
	return tab && space
}

// runMassiveMkdir (C07 / C09): Mkdir with the massive option never creates anything outside the
// target, creates nothing at all in dry-run, and rejects a tree with an invalid name.
func runMassiveMkdir(c Case) []Diff {
	orig := c.Exts
	c.Exts = ownExts(orig)
	return append(runMassiveMkdir1(c), extsDiff(orig, c.Exts)...)
}

func runMassiveMkdir1(c Case) []Diff {
	jail := newJail()
	defer os.RemoveAll(jail)
	populate(jail, c.Pre)
	target := c.targetIn(jail)
	cwdCheck := guardWorkDir(c)
	opts := append([]gtree.Option{gtree.WithTargetDir(target), gtree.WithFileExtensions(c.Exts), gtree.WithMassive(context.Background())}, strayOpts(c)...)
	if c.Dry {
		opts = dryOpts(c, []gtree.Option{gtree.WithTargetDir(target), gtree.WithFileExtensions(c.Exts), gtree.WithMassive(context.Background())})
	}
	// simple-mode verdict on a twin jail (the reference)
	twin := newJail()
	defer os.RemoveAll(twin)
	populate(twin, c.Pre)
	sopts := []gtree.Option{gtree.WithTargetDir(c.targetIn(twin)), gtree.WithFileExtensions(c.Exts)}
	if c.Dry {
		sopts = append(sopts, gtree.WithDryRun())
	}
	var err, serr error
	var written bytes.Buffer
	mkdir := func(o []gtree.Option) error {
		switch {
		case c.FromRoot && c.Alias:
			return gtree.MkdirProgrammably(buildRoot(parseTreeEnc(c.Tree)), o...)
		case c.FromRoot:
			return gtree.MkdirFromRoot(buildRoot(parseTreeEnc(c.Tree)), o...)
		case c.Alias:
			return gtree.Mkdir(bytes.NewReader(c.doc()), o...)
		}
		return gtree.MkdirFromMarkdown(bytes.NewReader(c.doc()), o...)
	}
	run := func() {
		err = mkdir(opts)
		serr = mkdir(sopts)
	}
	var mreport, sreport []byte
	if c.Dry {
		colorOutMu.Lock()
		old := colorOutput()
		mb, sb := &lockedBuf{}, &lockedBuf{}
		setColorOutput(mb)
		err = mkdir(opts)
		time.Sleep(5 * time.Millisecond)
		mreport = mb.finish()
		setColorOutput(sb)
		serr = mkdir(sopts)
		sreport = sb.finish()
		setColorOutput(old)
		colorOutMu.Unlock()
	} else {
		run()
		time.Sleep(5 * time.Millisecond) // let cancelled workers wind down before the snapshot
	}
	_ = written
	realv := "fs=" + strings.Join(snapshot(jail), ",") + " e=" + classify(err)
	d := append(confinement(c, realv), cwdCheck()...)
	nameErr := func(e error) bool { k := errClass(classify(e)); return k == "invalidname" || k == "invalidpath" }
	if nameErr(serr) != nameErr(err) {
		d = append(d, Diff{What: "massive mkdir and simple mkdir disagree about the names", Real: "massive: " + classify(err), Model: "simple: " + classify(serr)})
	}
	if c.Dry && err == nil && serr == nil {
		// the report of the massive dry run (with whatever stray option) is the simple dry run's, root by root
		a, b := splitLines(mreport), splitLines(sreport)
		sort.Strings(a)
		sort.Strings(b)
		if strings.Join(a, "") != strings.Join(b, "") {
			d = append(d, Diff{What: "massive dry-run Mkdir" + ifs(c.Stray != "", " (with the "+c.Stray+" encoding option "+ifs(c.StrayLast, "after", "before")+" WithDryRun)", "") + " reports something else than the simple dry run (as multisets of lines)", Real: hx(mreport), Model: hx(sreport)})
		}
	}
	oneRoot := bytes.Count(c.doc(), []byte("\n- ")) == 0 && !bytes.Contains(c.doc(), []byte("\n# "))
	if oneRoot && !c.FromRoot && errClass(classify(err)) != errClass(classify(serr)) {
		d = append(d, Diff{What: "massive mkdir of a one-root document ends differently from simple mkdir", Real: "massive: " + classify(err), Model: "simple: " + classify(serr)})
	}
	if (err == nil && serr == nil) || (oneRoot && !c.FromRoot) {
		// both succeeded (or there is only one root): the same file system (relative to the two jails)
		relSnap := func(j string) string {
			var out []string
			for _, e := range snapshot(j) {
				p := strings.SplitN(e, ":", 2)
				out = append(out, strings.TrimPrefix(string(unhx(p[0])), j)+":"+p[1])
			}
			return strings.Join(out, ",")
		}
		if a, b := relSnap(jail), relSnap(twin); a != b {
			d = append(d, Diff{What: "massive mkdir leaves a different file system than simple mkdir", Real: hxs(a), Model: hxs(b)})
		}
	}
	return d
}

// ---------------------------------------------------------------- isolated worker for crash detection (C12)

type c12job struct {
	Entry string `json:"entry"`
	Doc   string `json:"doc_hex"`
}

// c12Worker: reads "<entry> <dochex>" lines, runs the massive-mode entry point, prints "ok <class>".
// A panic in a library goroutine kills this process; the parent then reports the last case.
func c12Worker() {
	color.Output = io.Discard // dry-run Mkdir prints its report there; standard output carries the protocol
	sc := bufio.NewScanner(os.Stdin)
	sc.Buffer(make([]byte, 1<<20), 1<<26)
	out := bufio.NewWriter(os.Stdout)
	for sc.Scan() {
		f := strings.Fields(sc.Text())
		if len(f) != 2 {
			continue
		}
		doc := unhx(f[1])
		ctx, cancel := context.WithTimeout(context.Background(), 20*time.Second)
		done := make(chan string, 1)
		go func() {
			opts := []gtree.Option{gtree.WithMassive(ctx)}
			w := &faultWriter{failAt: -1}
			var err error
			switch f[0] {
			case "text":
				err = gtree.OutputFromMarkdown(w, bytes.NewReader(doc), opts...)
			case "json":
				err = gtree.OutputFromMarkdown(w, bytes.NewReader(doc), append(opts, gtree.WithEncodeJSON())...)
			case "yaml":
				err = gtree.OutputFromMarkdown(w, bytes.NewReader(doc), append(opts, gtree.WithEncodeYAML())...)
			case "dry":
				err = gtree.OutputFromMarkdown(w, bytes.NewReader(doc), append(opts, gtree.WithDryRun())...)
			case "walk":
				err = gtree.WalkFromMarkdown(bytes.NewReader(doc), func(*gtree.WalkerNode) error { return nil }, opts...)
			case "verify":
				err = gtree.VerifyFromMarkdown(bytes.NewReader(doc), append(opts, gtree.WithTargetDir(os.TempDir()))...)
			case "mkdir":
				jail := newJail()
				err = gtree.MkdirFromMarkdown(bytes.NewReader(doc), append(opts, gtree.WithTargetDir(filepath.Join(jail, "t")))...)
				time.Sleep(time.Millisecond)
				os.RemoveAll(jail)
			case "mkdir-alias":
				jail := newJail()
				err = gtree.Mkdir(bytes.NewReader(doc), append(opts, gtree.WithTargetDir(filepath.Join(jail, "t")), gtree.WithFileExtensions([]string{".go"}))...)
				time.Sleep(time.Millisecond)
				os.RemoveAll(jail)
			case "mkdir-dry":
				jail := newJail()
				err = gtree.MkdirFromMarkdown(bytes.NewReader(doc), append(opts, gtree.WithTargetDir(filepath.Join(jail, "t")), gtree.WithDryRun())...)
				os.RemoveAll(jail)
			}
			_, written := w.markReturned()
			done <- errClass(classify(err)) + " " + fmt.Sprint(len(written))
		}()
		select {
		case r := <-done:
			fmt.Fprintln(out, "ok "+r)
		case <-time.After(15 * time.Second):
			fmt.Fprintln(out, "hang")
		}
		cancel()
		out.Flush()
	}
	if scratchRoot != "" {
		os.RemoveAll(scratchRoot)
	}
}

type c12proc struct {
	cmd *exec.Cmd
	in  *bufio.Writer
	out *bufio.Reader
	err *bytes.Buffer
}

func startC12Worker(extraEnv ...string) *c12proc {
	self, _ := os.Executable()
	cmd := exec.Command(self, "c12worker")
	cmd.Env = append(append(os.Environ(), "GOMEMLIMIT=2GiB"), extraEnv...)
	in, _ := cmd.StdinPipe()
	out, _ := cmd.StdoutPipe()
	eb := &bytes.Buffer{}
	cmd.Stderr = eb
	if err := cmd.Start(); err != nil {
		panic(err)
	}
	return &c12proc{cmd, bufio.NewWriter(in), bufio.NewReaderSize(out, 1<<20), eb}
}

// ask returns the worker's answer, or "" with the crash text if the worker died.
func (p *c12proc) ask(j c12job) (string, string) {
	p.in.WriteString(j.Entry + " " + ifs(j.Doc == "", "-", j.Doc) + "\n")
	p.in.Flush()
	r, err := p.out.ReadString('\n')
	if err != nil {
		p.cmd.Wait()
		s := p.err.String()
		if len(s) > 3000 {
			s = s[:3000]
		}
		return "", s
	}
	return strings.TrimSpace(r), ""
}

func (p *c12proc) close() {
	p.cmd.Process.Kill()
	p.cmd.Wait()
}
