package main

import (
	"bytes"
	"context"
	"fmt"
	"os"
	"strings"

	"github.com/ddddddO/gtree"
)

// C04: JSON / YAML / TOML outputs decode (with the standard decoders) into records isomorphic to the tree.

func init() { props["c04"] = runC04 }

var hostileNames = []string{
	"a", `"q"`, "a: b", `C:\u003cache`, `x\u0026y`, "caf\ufffd.txt", "\ufffd", "<index>.html", "a&b", "x>y", "#h", `back\slash`, "日本語", "😀", "x\x01y", "x\x00y", "'s'", "{j}", "[l]", "null", "true", "~",
	"1.5", "k=v", "a,b", "- x", "* y", " lead", "trail ", "a b", " ", "\ufeffbom", "yes", "0x1F", "2001-01-01", "|", ">", "&a", "*a", "!t", "%", "@", "`",
	"a\tb", "\\n", "<<", "?", "a#b", "a #b", ": ", "-", "---", "...", "[", "]", "{", "}", ",",
}

func runC04(ctx *Ctx) *Report {
	rep := NewReport("C04")
	var cases []Case
	nrand := 1200
	if ctx.Thorough {
		nrand = 40000
	}
	// exhaustive small shapes over a rotating window of the hostile alphabet
	n := 4
	if ctx.Thorough {
		n = 5
	}
	shapes := forestsUpTo(n, []string{"§"})
	k := 0
	rename := func(f []*Tree) []*Tree {
		var rec func(t *Tree) *Tree
		rec = func(t *Tree) *Tree {
			nt := &Tree{Name: hostileNames[k%len(hostileNames)]}
			k++
			for _, c := range t.Kids {
				nt.Kids = append(nt.Kids, rec(c))
			}
			return nt
		}
		var out []*Tree
		for _, t := range f {
			out = append(out, rec(t))
		}
		return out
	}
	addForest := func(f []*Tree) {
		for _, format := range []string{"json", "yaml", "toml"} {
			if format == "toml" && len(f) != 1 {
				continue
			}
			if representable(f, plainSpelling) {
				doc := spell(f, plainSpelling)
				c := newCase("outf")
				c.Format = format
				c.Doc = hx(doc)
				c.DocText = docText(doc)
				c.Tree = encForest(f)
				cases = append(cases, c)
				if len(f) > 1 || len(cases)%3 == 0 {
					c.Mode = "batch" // the path that does not use the iterator
					cases = append(cases, c)
				}
			}
			if len(f) == 1 {
				c := newCase("rootf")
				c.Format = format
				c.Tree = f[0].Enc()
				cases = append(cases, c)
			}
		}
	}
	for _, sh := range shapes {
		addForest(rename(sh))
	}
	for _, name := range []string{"deep", "wide", "many-roots", "long-names"} {
		addForest(bigShapes()[name])
	}
	for i := 0; i < nrand; i++ {
		size := 1 + ctx.Rng.Intn(25)
		f := randForest(ctx.Rng, size, []string{"plain", "bullets", "blanks", "unicode", "quotes", "path"}, 3, rep.Dist)
		if i%3 == 0 {
			// hostile alphabet
			var rec func(t *Tree)
			rec = func(t *Tree) {
				t.Name = hostileNames[ctx.Rng.Intn(len(hostileNames))]
				for _, c := range t.Kids {
					rec(c)
				}
			}
			for _, t := range f {
				rec(t)
			}
		}
		addForest(f)
	}
	runCases(rep, cases, ctx.Workers, func(c Case) bool { return len(c.Tree) > 12 })
	// the encodings with the massive option and a writer that takes its time: at return the output is
	// complete and decodes to the same records (any root order)
	{
		m := NewModel()
		defer m.Close()
		var roots []*Tree
		for i := 0; i < 12; i++ {
			roots = append(roots, &Tree{Name: hostileNames[i%len(hostileNames)] + fmtInt(i), Kids: []*Tree{{Name: "k", Kids: []*Tree{{Name: hostileNames[(i*5)%len(hostileNames)]}}}, {Name: "z"}}})
		}
		if representable(roots, plainSpelling) {
			doc := spell(roots, plainSpelling)
			for s := 0; s < 3; s++ {
				for _, op := range []string{"json", "yaml"} {
					c := massiveCase{Kind: "massive", Op: op, Doc: hx(doc), Text: "<12 roots, hostile names, slow writer>", Sched: int64(40 + s), Fmt: fmtDefault, SlowUS: 400}
					rep.Record(c, "massive-slow:"+op+fmtInt(s), true, runMassive(m, c))
					rep.Count("massive-slow-writer:" + op)
				}
			}
		}
	}
	// the same root encoded again after nodes were added at several depths: the output follows the tree
	{
		m := NewModel()
		defer m.Close()
		k := 0
		enumForests(4, []string{"a", "b"}, func(f []*Tree) {
			k++
			if k%2 != 0 {
				return
			}
			t := addMirror(&Tree{Name: "r", Kids: f}) // what Add builds: equally named siblings are one node
			root := buildRoot(t)
			format := []string{"json", "yaml", "toml"}[k%3]
			var diffs []Diff
			enc := func() string {
				var buf bytes.Buffer
				err := gtree.OutputFromRoot(&buf, root, encodeOpt(format))
				nodes, derr := decodeFormatted(format, buf.Bytes())
				if derr != nil {
					return "decode-error:" + derr.Error()
				}
				return "f=" + showFNodes(nodes) + " e=" + classify(err)
			}
			diffs = append(diffs, cmp("first encoding", enc(), m.Ask("rootf "+addMirror(t).Enc()))...)
			// add below the deepest first child, and at the root
			n, tn := root, t
			for len(tn.Kids) > 0 {
				n, tn = n.Add(tn.Kids[0].Name), tn.Kids[0]
			}
			n.Add("deep-late")
			tn.Kids = append(tn.Kids, &Tree{Name: "deep-late"})
			diffs = append(diffs, cmp("encoding after an Add below a non-root node", enc(), m.Ask("rootf "+addMirror(t).Enc()))...)
			root.Add("top-late")
			t.Kids = append(t.Kids, &Tree{Name: "top-late"})
			diffs = append(diffs, cmp("encoding after an Add at the root", enc(), m.Ask("rootf "+addMirror(t).Enc()))...)
			rep.Record(map[string]any{"kind": "encode-again", "tree": t.Enc(), "format": format}, "encode-again:"+fmtInt(k), true, diffs)
			rep.Count("encode-again:" + format)
		})
	}
	// an encoded massive output after one whose writer failed: nothing of the failed call shows up
	{
		var roots []*Tree
		for i := 0; i < 6; i++ {
			roots = append(roots, &Tree{Name: "p" + fmtInt(i), Kids: []*Tree{{Name: "q", Kids: []*Tree{{Name: "r"}}}}})
		}
		doc := spell(roots, plainSpelling)
		for s := 0; s < 6; s++ {
			format := []string{"json", "yaml"}[s%2]
			fw := &faultWriter{failAt: s % 3}
			gtree.OutputFromMarkdown(fw, bytes.NewReader(doc), encodeOpt(format), gtree.WithMassive(context.Background()))
			fw.markReturned()
			var diffs []Diff
			for again := 0; again < 3; again++ {
				var lb lockedBuf
				f2 := []string{"json", "yaml"}[(s+again)%2]
				err := gtree.OutputFromMarkdown(&lb, bytes.NewReader(doc), encodeOpt(f2), gtree.WithMassive(context.Background()))
				nodes, derr := decodeFormatted(f2, lb.finish())
				if err != nil || derr != nil || len(nodes) != len(roots) {
					diffs = append(diffs, Diff{What: "massive " + f2 + " output after a massive " + format + " output whose writer failed", Real: fmt.Sprintf("err=%v decode=%v roots=%d raw=%s", err, derr, len(nodes), hx(lb.finish())), Model: fmt.Sprintf("%d roots, no error", len(roots))})
				}
			}
			rep.Record(map[string]any{"kind": "encode-after-failed-write", "s": s}, "after-failed:"+fmtInt(s), true, diffs)
			rep.Count("encode-after-failed-write")
		}
	}
	// the command line selects the same encoders: `gtree output --format F`, alone and together with every other
	// flag of the sub-command, writes what the library writes for that format
	{
		bin := cliBinary()
		dir := newJail()
		defer os.RemoveAll(dir)
		one := []*Tree{{Name: "r\"q", Kids: []*Tree{{Name: "a: b", Kids: []*Tree{{Name: "#c"}}}, {Name: "d\\e"}}}}
		two := append(append([]*Tree{}, one...), &Tree{Name: "s", Kids: []*Tree{{Name: "t"}}})
		for di, f := range [][]*Tree{one, two} {
			doc := spell(f, plainSpelling)
			for _, format := range []string{"json", "yaml", "toml"} {
				if format == "toml" && len(f) != 1 {
					continue
				}
				var want bytes.Buffer
				werr := gtree.OutputFromMarkdown(&want, bytes.NewReader(doc), encodeOpt(format))
				for ai, extra := range [][]string{nil, {"--massive-timeout", "30s"}, {"--massive", "--massive-timeout", "30s"}, {"--massive"}, {"-mt", "1m"}} {
					massive := false
					for _, e := range extra {
						if e == "--massive" || e == "--massive-timeout" || e == "-mt" {
							massive = true // a timeout alone selects the massive mode too (cmd/gtree/main.go)
						}
					}
					if massive && len(f) != 1 {
						continue // root order is not determined
					}
					args := append([]string{"output", "--format", format}, extra...)
					run := execCli(bin, dir, args, doc, "pipe")
					var diffs []Diff
					if run.crashed || (run.code == 0) != (werr == nil) {
						diffs = append(diffs, Diff{What: "gtree " + strings.Join(args, " ") + ": exit status", Real: fmt.Sprintf("exit %d stderr=%q", run.code, run.stderr), Model: "library: " + classify(werr)})
					} else if werr == nil && !bytes.Equal(run.stdout, want.Bytes()) {
						diffs = append(diffs, Diff{What: "gtree " + strings.Join(args, " ") + " writes something else than the library's " + format + " output", Real: hx(run.stdout), Model: hx(want.Bytes())})
					}
					rep.Record(map[string]any{"kind": "cli-format", "args": args, "doc": string(doc)}, "cli-format:"+fmtInt(di)+format+fmtInt(ai), true, diffs)
					rep.Count("cli:--format " + format)
				}
			}
		}
	}
	return rep
}
