package main

import (
	"bytes"
	"context"
	"encoding/json"
	"os"
	"path/filepath"
	"sort"
	"strings"
	"sync"

	"github.com/ddddddO/gtree"
)

// C15: equivalent spellings give byte-identical results. Metamorphic on the real code (two spellings
// of one forest through every output mode, mkdir, verify), plus the model's answer for one of them.

func init() {
	props["c15"] = runC15
	replayers["spell-pair"] = func(m *Model, raw json.RawMessage) []Diff {
		var c pairCase
		json.Unmarshal(raw, &c)
		return runPair(m, c)
	}
}

type pairCase struct {
	Kind    string   `json:"kind"`
	Forest  string   `json:"forest"`
	Forest2 string   `json:"heading_sections,omitempty"` // when set: `forest` as list roots, then these as heading sections
	S1      Spelling `json:"s1"`
	S2      Spelling `json:"s2"`
	Fmt     Fmt4     `json:"fmt"`
	Exts    []string `json:"exts,omitempty"`
	WithFS  bool     `json:"with_fs"`
}

func forestOfEnc(enc string) []*Tree {
	var f []*Tree
	pos := 0
	for pos < len(enc) {
		depth, st := 0, pos
		for pos < len(enc) {
			if enc[pos] == '(' {
				depth++
			} else if enc[pos] == ')' {
				depth--
				if depth == 0 {
					pos++
					break
				}
			}
			pos++
		}
		f = append(f, parseTreeEnc(enc[st:pos]))
	}
	return f
}

func allOutputs(doc []byte, f Fmt4, exts []string, withFS bool) map[string]string {
	res := map[string]string{}
	run := func(name string, opts ...gtree.Option) {
		var b bytes.Buffer
		err := gtree.OutputFromMarkdown(&b, bytes.NewReader(doc), opts...)
		res[name] = hx(b.Bytes()) + " e=" + classify(err)
	}
	run("text", fmtOpts(f)...)
	run("text-batch", append(fmtOpts(f), gtree.WithNoUseIterOfSimpleOutput())...)
	run("json", gtree.WithEncodeJSON())
	run("yaml", gtree.WithEncodeYAML())
	run("toml", gtree.WithEncodeTOML())
	run("dry", gtree.WithDryRun(), gtree.WithFileExtensions(exts))
	var vs []string
	err := gtree.WalkFromMarkdown(bytes.NewReader(doc), func(wn *gtree.WalkerNode) error { vs = append(vs, showVisit(wn)); return nil }, fmtOpts(f)...)
	res["walk"] = showVisits(vs) + " e=" + classify(err)
	// the massive option: same verdict and same set of visited nodes
	{
		var mu sync.Mutex
		var rows []string
		err := gtree.WalkFromMarkdown(bytes.NewReader(doc), func(wn *gtree.WalkerNode) error {
			mu.Lock()
			rows = append(rows, wn.Path()+"\x00"+wn.Row())
			mu.Unlock()
			return nil
		}, append(fmtOpts(f), gtree.WithMassive(context.Background()))...)
		mu.Lock()
		sort.Strings(rows)
		res["walk+massive"] = hxs(strings.Join(rows, "\n")) + " e=" + errClass(classify(err))
		mu.Unlock()
	}
	if withFS {
		jail := newJail()
		defer os.RemoveAll(jail)
		t := filepath.Join(jail, "t")
		merr := gtree.MkdirFromMarkdown(bytes.NewReader(doc), gtree.WithTargetDir(t), gtree.WithFileExtensions(exts))
		var snap []string
		for _, e := range snapshot(jail) {
			p := strings.SplitN(e, ":", 2)
			snap = append(snap, strings.TrimPrefix(string(unhx(p[0])), jail)+":"+p[1])
		}
		res["mkdir"] = strings.Join(snap, ",") + " e=" + classify(merr)
		os.MkdirAll(filepath.Join(t, "zz-extra"), 0o755)
		v1 := gtree.VerifyFromMarkdown(bytes.NewReader(doc), gtree.WithTargetDir(t))
		v2 := gtree.VerifyFromMarkdown(bytes.NewReader(doc), gtree.WithTargetDir(t), gtree.WithStrictVerify())
		res["verify"] = strings.ReplaceAll(classify(v1), hxs(jail), "") + " strict=" + strings.ReplaceAll(classify(v2), hxs(jail), "")
	}
	return res
}

// spellMixed: list roots first (spelled as a list-rooted document), then the same notation with heading roots
func spellMixed(lists, heads []*Tree, s Spelling) []byte {
	a, b := s, s
	a.Sharp, b.Sharp = false, true
	a.FinalNL, b.LeadBlank = true, false
	return append(spell(lists, a), spell(heads, b)...)
}

func runPair(m *Model, c pairCase) []Diff {
	f := forestOfEnc(c.Forest)
	d1, d2 := spell(f, c.S1), spell(f, c.S2)
	if c.Forest2 != "" {
		d1, d2 = spellMixed(f, forestOfEnc(c.Forest2), c.S1), spellMixed(f, forestOfEnc(c.Forest2), c.S2)
	}
	r1 := allOutputs(d1, c.Fmt, c.Exts, c.WithFS)
	r2 := allOutputs(d2, c.Fmt, c.Exts, c.WithFS)
	var diffs []Diff
	for k, v := range r1 {
		if c.Forest2 != "" && k == "walk+massive" {
			continue // list roots before heading roots: known finding c10.list-roots-before-heading-roots
		}
		if r2[k] != v {
			diffs = append(diffs, Diff{What: "spelling changes the " + k + " result", Real: v, Model: r2[k]})
		}
	}
	// and the model on the second spelling agrees with the real result of the first
	modelv := m.Ask("out iter-text " + c.Fmt.enc() + " _ 0 n 0 " + hx(d2))
	diffs = append(diffs, cmp("model(text, spelling 2) vs real(text, spelling 1)", "w="+r1["text"], modelv)...)
	return diffs
}

func runC15(ctx *Ctx) *Report {
	rep := NewReport("C15")
	n := 4
	if ctx.Thorough {
		n = 5
	}
	forests := forestsUpTo(n, []string{"a", "b.go"})
	sps := coveringSpellings()
	var pairs []pairCase
	pi := 0
	for fi, f := range forests {
		enc := encForest(f)
		for i := 0; i < len(sps); i++ {
			for j := i + 1; j < len(sps); j++ {
				pi++
				// all pairs are covered across forests; each forest gets a stride of them (all of them in the thorough tier)
				if !ctx.Thorough && (pi+fi)%23 != 0 {
					continue
				}
				if !representable(f, sps[i]) || !representable(f, sps[j]) {
					continue
				}
				pairs = append(pairs, pairCase{Kind: "spell-pair", Forest: enc, S1: sps[i], S2: sps[j], Fmt: allFormats()[pi%len(allFormats())], Exts: extLists[pi%len(extLists)], WithFS: distinctRoots(f) && pi%4 == 0})
			}
		}
	}
	nr := 400
	if ctx.Thorough {
		nr = 10000
	}
	for k := 0; k < nr; k++ {
		f := randForest(ctx.Rng, 1+ctx.Rng.Intn(30), []string{"plain", "bullets", "blanks", "unicode", "quotes"}, 3, rep.Dist)
		s1, s2 := randSpelling(ctx.Rng), randSpelling(ctx.Rng)
		if !representable(f, s1) {
			s1.Sharp = false
		}
		if !representable(f, s2) {
			s2.Sharp = false
		}
		if !representable(f, s1) || !representable(f, s2) {
			continue
		}
		pairs = append(pairs, pairCase{Kind: "spell-pair", Forest: encForest(f), S1: s1, S2: s2, Fmt: allFormats()[k%len(allFormats())], Exts: extLists[k%len(extLists)]})
	}
	// documents that begin with list roots and go on with heading sections, in pairs of spellings
	{
		lists := forestsUpTo(3, []string{"a", "b"})
		k := 0
		for li := 0; li < len(lists); li += 3 {
			for hi := 1; hi < len(lists); hi += 5 {
				k++
				i, j := k%len(sps), (k*7+3)%len(sps)
				if i == j {
					continue
				}
				pairs = append(pairs, pairCase{Kind: "spell-pair", Forest: encForest(lists[li]), Forest2: encForest(lists[hi]), S1: sps[i], S2: sps[j], Fmt: fmtDefault, Exts: extLists[k%len(extLists)]})
			}
		}
	}
	// LF against CRLF when a row (indentation, bullet, blank, name – without its line ending) is exactly as long as
	// a reader's buffer, one byte less, one byte more: 4095, 4096, 4097, 8191, 8192 and 4095 + k·4096 bytes; the long
	// row is the root's, an inner node's, the last row of the document
	{
		lens := []int{4094, 4095, 4096, 4097, 8190, 8191, 8192, 8193, 12287, 16383}
		for i := 0; i < 6; i++ {
			k := 1 + ctx.Rng.Intn(13)
			lens = append(lens, 4095+k*4096, 4096+k*4096, 4095+k*4096-ctx.Rng.Intn(3)+1)
		}
		if ctx.Thorough {
			for k := 0; k < 15; k++ {
				for dlt := -2; dlt <= 2; dlt++ {
					lens = append(lens, 4095+k*4096+dlt)
				}
			}
		}
		for li, n := range lens {
			s1 := randSpelling(ctx.Rng)
			s1.CRLF, s1.NoSpace, s1.BlankEvery, s1.LeadBlank = false, false, 0, false
			if li%3 == 0 {
				s1 = Spelling{IndentChar: ' ', Unit: 2, Bullets: "-", FinalNL: true}
			}
			s2 := s1
			s2.CRLF = true
			if li%4 == 1 {
				s2.FinalNL = !s1.FinalNL
			}
			// where the long row is, and how deep (the indentation counts)
			var f []*Tree
			depth := 0
			long := &Tree{}
			switch (li + ctx.Rng.Intn(4)) % 4 {
			case 0:
				f, depth = []*Tree{{Name: "r", Kids: []*Tree{{Name: "a"}, long, {Name: "z.go"}}}, {Name: "s"}}, 1
			case 1:
				long.Kids = []*Tree{{Name: "a", Kids: []*Tree{{Name: "b.go"}}}, {Name: "c"}}
				f, depth = []*Tree{{Name: "first"}, long}, 0
			case 2:
				f, depth = []*Tree{{Name: "r", Kids: []*Tree{{Name: "a", Kids: []*Tree{{Name: "b", Kids: []*Tree{long}}}}}}}, 3
			case 3:
				f, depth = []*Tree{{Name: "r", Kids: []*Tree{{Name: "a"}}}, {Name: "s", Kids: []*Tree{{Name: "t", Kids: []*Tree{{Name: "u"}, long}}}}}, 2
			}
			indent := depth * s1.Unit
			if s1.Sharp && depth > 0 {
				indent = (depth - 1) * s1.Unit
			}
			nameLen := n - indent - 2
			long.Name = strings.Repeat("N", nameLen-3) + ".go"
			if !representable(f, s1) {
				continue
			}
			// the row really has the length asked for
			ok := false
			for _, row := range strings.Split(string(spell(f, s1)), "\n") {
				if len(row) == n {
					ok = true
				}
			}
			if !ok {
				panic("c15: long row has not the intended length")
			}
			pairs = append(pairs, pairCase{Kind: "spell-pair", Forest: encForest(f), S1: s1, S2: s2, Fmt: lineFormats()[li%len(lineFormats())], Exts: []string{".go"}})
			rep.Count("pair:long-row-lf-vs-crlf")
		}
	}
	for bi, name := range []string{"deep", "wide", "many-roots"} {
		f := bigShapes()[name]
		pairs = append(pairs, pairCase{Kind: "spell-pair", Forest: encForest(f), S1: sps[(3*bi+1)%len(sps)], S2: sps[(5*bi+6)%len(sps)], Fmt: allFormats()[bi%len(allFormats())], Exts: extLists[1], WithFS: true})
	}
	// many roots: in the massive mode the blocks of one document are parsed concurrently, in every spelling alike
	{
		var many []*Tree
		for i := 0; i < 800; i++ {
			many = append(many, &Tree{Name: "r" + fmtInt(i), Kids: []*Tree{{Name: "a", Kids: []*Tree{{Name: "b.go"}, {Name: "c"}}}, {Name: "d" + fmtInt(i%7)}}})
		}
		enc := encForest(many)
		for _, sp := range [][2]int{{5, 1}, {0, 4}, {2, 21}} {
			pairs = append(pairs, pairCase{Kind: "spell-pair", Forest: enc, S1: sps[sp[0]], S2: sps[sp[1]], Fmt: fmtDefault, Exts: extLists[1]})
		}
	}
	parallel(pairs, ctx.Workers, func(m *Model, c pairCase) {
		diffs := runPair(m, c)
		b, _ := json.Marshal(c)
		rep.Record(c, string(b), nonTrivialEnc(c.Forest) || len(c.Forest) > 20, diffs)
		rep.Count("pair:sharp=" + b01(c.S1.Sharp) + b01(c.S2.Sharp) + " crlf=" + b01(c.S1.CRLF) + b01(c.S2.CRLF) + " tab=" + b01(c.S1.IndentChar == '\t') + b01(c.S2.IndentChar == '\t'))
	})
	return rep
}
