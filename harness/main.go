package main

import (
	"encoding/json"
	"flag"
	"fmt"
	"math/rand"
	"os"
	"path/filepath"
	"runtime"
	"sort"
	"strings"
	"time"
)

type Ctx struct {
	Tier     string
	Seed     int64
	Rng      *rand.Rand
	Workers  int
	Thorough bool
}

var props = map[string]func(*Ctx) *Report{}

func main() {
	if len(os.Args) < 2 {
		fmt.Fprintln(os.Stderr, "usage: harness <property|replay> [flags]")
		os.Exit(2)
	}
	sub := os.Args[1]
	fset := flag.NewFlagSet(sub, flag.ExitOnError)
	tier := fset.String("tier", "quick", "quick|thorough")
	seed := fset.Int64("seed", 1, "PRNG seed")
	out := fset.String("out", "", "result JSON path")
	model := fset.String("model", modelPath, "model driver binary")
	replay := fset.String("replay", "", "replay file")
	fset.Parse(os.Args[2:])
	// every path the harness is given is made absolute: the process leaves the directory it was started in
	for _, p := range []*string{model, out, replay} {
		if *p != "" && !filepath.IsAbs(*p) {
			if a, err := filepath.Abs(*p); err == nil {
				*p = a
			}
		}
	}
	modelPath = *model
	defer func() {
		if scratchRoot != "" {
			os.RemoveAll(scratchRoot)
		}
	}()

	switch sub {
	case "c12worker":
		c12Worker()
		return
	case "c17driver":
		c17Driver()
		return
	}

	start := time.Now()
	// the suites run inside a working directory of their own (under the scratch root) that holds sentinel entries:
	// no case has it as its target directory, so nothing in it may ever change (workdir.go)
	enterWorkDir()
	cwdGuard = sub == "c06" || sub == "c07" || sub == "c09"
	ctx := &Ctx{Tier: *tier, Seed: *seed, Rng: rand.New(rand.NewSource(*seed)), Workers: runtime.NumCPU(), Thorough: *tier == "thorough"}
	var rep *Report
	if *replay != "" {
		rep = runReplay(sub, *replay)
	} else {
		fn, ok := props[sub]
		if !ok {
			fmt.Fprintln(os.Stderr, "unknown property", sub)
			os.Exit(2)
		}
		otherUses() // the process has used every entry point before the suite starts
		rep = fn(ctx)
	}
	// whatever the suite did, the working directory of the process is as it was
	if wd := workDirDiffs(); len(wd) > 0 {
		switch rep.Property {
		case "C06", "C07", "C09":
			rep.Record(map[string]string{"kind": "working-directory", "property": rep.Property}, "working-directory", true, wd)
		default:
			rep.Notes = append(rep.Notes, "the working directory of the harness process changed during the suite: "+wd[0].What+" ("+wd[0].Real+")")
		}
	} else if *replay == "" {
		rep.Count("working-directory untouched")
	}
	res := map[string]any{
		"property":            rep.Property,
		"tier":                *tier,
		"seed":                *seed,
		"evaluations":         rep.Evaluations,
		"distinct_nontrivial": len(rep.distinct),
		"samples":             rep.Samples,
		"violations":          nonNil(rep.Violations),
		"distribution":        rep.Dist,
		"known":               rep.Known,
		"exhaustive":          rep.Exhaustive,
		"notes":               rep.Notes,
		"wall_s":              time.Since(start).Seconds(),
	}
	b, _ := json.MarshalIndent(res, "", " ")
	if *out != "" {
		os.WriteFile(*out, b, 0o644)
	} else {
		os.Stdout.Write(b)
	}
	if scratchRoot != "" {
		os.RemoveAll(scratchRoot)
	}
	if len(rep.Violations) > 0 {
		os.Exit(1)
	}
}

func runReplay(prop, path string) *Report {
	b, err := os.ReadFile(path)
	if err != nil {
		fmt.Fprintln(os.Stderr, err)
		os.Exit(2)
	}
	var v struct {
		Case json.RawMessage `json:"case"`
	}
	if err := json.Unmarshal(b, &v); err != nil || v.Case == nil {
		fmt.Fprintln(os.Stderr, "replay file has no case")
		os.Exit(2)
	}
	rep := NewReport(strings.ToUpper(prop))
	m := NewModel()
	defer m.Close()
	var probe struct {
		Kind string `json:"kind"`
	}
	json.Unmarshal(v.Case, &probe)
	if fn, ok := replayers[probe.Kind]; ok {
		diffs := fn(m, v.Case)
		rep.Record(v.Case, string(v.Case), true, diffs)
		return rep
	}
	var c Case
	if err := json.Unmarshal(v.Case, &c); err != nil {
		fmt.Fprintln(os.Stderr, err)
		os.Exit(2)
	}
	diffs := runCase(m, c)
	rep.Record(c, string(v.Case), true, diffs)
	return rep
}

// replayers for relational case kinds (registered by the property files)
var replayers = map[string]func(*Model, json.RawMessage) []Diff{}

// runCases runs plain differential cases in parallel and records them.
func runCases(rep *Report, cases []Case, workers int, nontrivial func(Case) bool) {
	parallel(cases, workers, func(m *Model, c Case) {
		diffs, realv := runCaseR(m, c)
		key := caseKey(c)
		rep.Record(c, key, nontrivial(c), diffs)
		rep.Count("kind:" + c.Kind + ifs(c.Mode != "", "/"+c.Mode, "") + ifs(c.Format != "", "/"+c.Format, ""))
		rep.Count("result:" + resultClass(realv))
	})
}

func ifs(b bool, a, c string) string {
	if b {
		return a
	}
	return c
}

func caseKey(c Case) string {
	b, _ := json.Marshal(c)
	return string(b)
}

func sortedKeys(m map[string]int) []string {
	var ks []string
	for k := range m {
		ks = append(ks, k)
	}
	sort.Strings(ks)
	return ks
}

// resultClass extracts the error class from a canonical result ("… e=<class>[:payload]").
func resultClass(r string) string {
	i := strings.LastIndex(r, "e=")
	if i < 0 {
		return "?"
	}
	return errClass(r[i+2:])
}
