package main

import (
	"fmt"
)

func fmtInt(n int) string { return fmt.Sprint(n) }

// nonTrivialEnc: the encoded forest has ≥3 levels and a non-last node with descendants
func nonTrivialEnc(enc string) bool {
	if enc == "" || enc == "_" {
		return false
	}
	var f []*Tree
	pos := 0
	for pos < len(enc) {
		// split top-level trees
		depth := 0
		st := pos
		for pos < len(enc) {
			if enc[pos] == '(' {
				depth++
			} else if enc[pos] == ')' {
				depth--
				if depth == 0 {
					pos++
					break
				}
			}
			pos++
		}
		f = append(f, parseTreeEnc(enc[st:pos]))
	}
	return nonTrivialForest(f)
}

func c17Driver() {}

func nonNil(v []Violation) []Violation {
	if v == nil {
		return []Violation{}
	}
	return v
}
