package main

import (
	"fmt"
)

func fmtInt(n int) string { return fmt.Sprint(n) }

// nonTrivialEnc: the encoded forest has ≥3 levels and a non-last node with descendants
func nonTrivialEnc(enc string) bool {
	if enc == "" || enc == "_" {
		return false
	}
	var f []*Tree
	pos := 0
	for pos < len(enc) {
		// split top-level trees
		depth := 0
		st := pos
		for pos < len(enc) {
			if enc[pos] == '(' {
				depth++
			} else if enc[pos] == ')' {
				depth--
				if depth == 0 {
					pos++
					break
				}
			}
			pos++
		}
		f = append(f, parseTreeEnc(enc[st:pos]))
	}
	return nonTrivialForest(f)
}

func c17Driver() {}

func nonNil(v []Violation) []Violation {
	if v == nil {
		return []Violation{}
	}
	return v
}

// ownExts gives a case its own copy of an extension list (with spare capacity): the lists of the suites are shared
// by many cases, and a library call that changes the slice it was given must not go unnoticed or leak into other
// cases.
func ownExts(exts []string) []string {
	if exts == nil {
		return nil
	}
	return append(make([]string, 0, len(exts)+2), exts...)
}

// extsDiff reports a change the library made to the extension slice it was given (also beyond its length).
func extsDiff(orig, mine []string) []Diff {
	if orig == nil {
		return nil
	}
	full := mine[:cap(mine)]
	same := len(mine) == len(orig)
	for i := range full {
		want := ""
		if i < len(orig) {
			want = orig[i]
		}
		if full[i] != want {
			same = false
		}
	}
	if same {
		return nil
	}
	return []Diff{{What: "the library changed the extension slice the caller passed to WithFileExtensions", Real: fmt.Sprintf("%q", full), Model: fmt.Sprintf("%q", orig)}}
}
