package main

import (
	"bytes"
	"fmt"
	"os"
	"path/filepath"
	"strings"
	"sync"
	"unicode/utf8"

	"github.com/ddddddO/gtree"
)

// C12: no input can crash or hang the library. Every byte string over a small hostile alphabet
// (exhaustive to a length bound) plus mutated documents go through every simple-mode entry point;
// the model predicts the outcome (it has no panic outcome: Props/C12.lean), a panic is a difference.
// Massive-mode entry points are exercised in an isolated worker process (see c10c11.go).

func init() { props["c12"] = runC12 }

func guard(f func() string) (res string) {
	defer func() {
		if r := recover(); r != nil {
			res = fmt.Sprintf("PANIC: %v", r)
		}
	}()
	return f()
}

func runC12(ctx *Ctx) *Report {
	rep := NewReport("C12")
	alphabet := []byte{'-', '#', ' ', '\t', '\n', 'a', 0xFF}
	maxLen := 4
	if ctx.Thorough {
		maxLen = 5
	}
	var docs [][]byte
	var rec func(prefix []byte)
	rec = func(prefix []byte) {
		docs = append(docs, append([]byte{}, prefix...))
		if len(prefix) == maxLen {
			return
		}
		for _, b := range alphabet {
			rec(append(prefix, b))
		}
	}
	rec(nil)
	rep.Exhaustive = true
	rep.Notes = append(rep.Notes, fmt.Sprintf("all %d byte strings of length ≤ %d over {'-','#',' ','\\t','\\n','a',0xFF} through 7 entry points", len(docs), maxLen))
	// mutated documents
	nm := 3000
	if ctx.Thorough {
		nm = 100000
	}
	base := [][]byte{
		[]byte("- a\n  - b\n    - c\n  - d\n- e\n"),
		[]byte("# r\n- a\n\t- b\n# s\n- c\n"),
		[]byte("* x\n    * y\n        * z\n"),
		[]byte("- a\r\n  - b\r\n"),
	}
	muts := []byte{'-', '*', '+', '#', ' ', '\t', '\n', '\r', 'a', 0xFF, 0xC2, 0x85, 0xE3, 0x80, 0x80, 0x00, '/', '.'}
	for i := 0; i < nm; i++ {
		d := append([]byte{}, base[ctx.Rng.Intn(len(base))]...)
		for k := 0; k < 1+ctx.Rng.Intn(4); k++ {
			pos := ctx.Rng.Intn(len(d) + 1)
			switch ctx.Rng.Intn(3) {
			case 0:
				d = append(d[:pos], append([]byte{muts[ctx.Rng.Intn(len(muts))]}, d[pos:]...)...)
			case 1:
				if pos < len(d) {
					d = append(d[:pos], d[pos+1:]...)
				}
			case 2:
				if pos < len(d) {
					d[pos] = muts[ctx.Rng.Intn(len(muts))]
				}
			}
		}
		docs = append(docs, d)
	}
	// blank rows made of Unicode white space (strings.TrimSpace semantics), alone and around items
	for _, ws := range []string{"\u3000", "\u00a0", "\u0085", "\u2028", "\u2029", "\u1680", "\u2003", "\u202f", "\u205f", "\v", "\f", " \u3000\t"} {
		docs = append(docs, []byte(ws), []byte(ws+"\n"), []byte(ws+"\n"+ws+"\n"), []byte(ws+"\n- a\n"+ws+"\n  - b\n"+ws), []byte("- a\n"+ws+"\n"))
	}
	// over-long lines around bufio's limit
	for _, n := range []int{65533, 65534, 65535, 65536, 70000} {
		docs = append(docs, []byte("- "+strings.Repeat("x", n-2)+"\n- b\n"))
		docs = append(docs, []byte("- a\n  - "+strings.Repeat("y", n-4)))
	}
	// ill-formed rows around 4 KiB / 64 KiB whose last character is a multi-byte one (error messages quote the row)
	var longBad [][]byte
	for _, n := range []int{4090, 4093, 4094, 4095, 4096, 4097, 8191, 65530} {
		for _, tail := range []string{"あ", "é", "😀", "\x80\x80\x80", "z"} {
			longBad = append(longBad, []byte(strings.Repeat("x", n)+tail+"\n"), []byte("- ok\n  "+strings.Repeat("q", n-2)+tail+"\n- after\n"))
		}
	}
	docs = append(docs, longBad...)
	kinds := []string{"iter-text", "batch-text", "iter-dry", "json", "yaml", "walk", "verify"}
	type job struct {
		doc  []byte
		kind string
	}
	var jobs []job
	for i, d := range docs {
		if len(d) > 1000 {
			for _, k := range []string{"iter-text", "batch-text", "walk"} {
				jobs = append(jobs, job{d, k})
			}
			continue
		}
		if len(d) <= maxLen {
			for _, k := range kinds {
				jobs = append(jobs, job{d, k})
			}
		} else {
			jobs = append(jobs, job{d, kinds[i%len(kinds)]})
		}
	}
	parallel(jobs, ctx.Workers, func(m *Model, j job) {
		var c Case
		switch j.kind {
		case "iter-text", "batch-text", "iter-dry":
			c = newCase("out")
			c.Mode = j.kind
			c.Exts = []string{"a"}
		case "json", "yaml":
			c = newCase("outf")
			c.Format = j.kind
			c.ErrOnly = !utf8.Valid(j.doc)
		case "walk":
			c = newCase("walk")
		case "verify":
			c = newCase("verify")
			c.Target = "t"
			c.Pre = []FSEntry{{"t", "d"}, {"t/a", "d"}}
		}
		c.Doc = hx(j.doc)
		if len(j.doc) < 200 {
			c.DocText = docText(j.doc)
		} else {
			c.DocText = fmt.Sprintf("<%d bytes>", len(j.doc))
		}
		var diffs []Diff
		var realv string
		p := guard(func() string {
			diffs, realv = runCaseR(m, c)
			return ""
		})
		if p != "" {
			diffs = []Diff{{What: "panic", Real: p, Model: "every entry point returns normally"}}
		}
		if isBlankDoc(j.doc) && (j.kind == "iter-text" || j.kind == "batch-text" || j.kind == "iter-dry") && realv != "w=- e=nil" && p == "" {
			diffs = append(diffs, Diff{What: "blank-only input must give empty output and nil", Real: realv, Model: "w=- e=nil"})
		}
		rep.Record(c, caseKey(c), len(j.doc) >= 2, diffs)
		rep.Count("entry:" + j.kind + "/" + resultClass(realv))
	})
	// mkdir real + dry in a jail for the short strings (serial part kept small)
	var mk []Case
	for i, d := range docs {
		if len(d) > 3 && i%37 != 0 {
			continue
		}
		if len(d) > 300 {
			continue
		}
		for _, dry := range []bool{false, true} {
			c := newCase("mkdir")
			c.Doc, c.DocText, c.Target, c.Dry, c.Pre = hx(d), docText(d), "t", dry, []FSEntry{{"t", "d"}}
			mk = append(mk, c)
		}
	}
	parallel(mk, ctx.Workers, func(m *Model, c Case) {
		var diffs []Diff
		var realv string
		p := guard(func() string {
			diffs, realv = runCaseR(m, c)
			return ""
		})
		if p != "" {
			diffs = []Diff{{What: "panic", Real: p, Model: "every entry point returns normally"}}
		}
		rep.Record(c, caseKey(c), len(c.Doc) >= 4, diffs)
		rep.Count("entry:mkdir" + ifs(c.Dry, "-dry", "") + "/" + resultClass(realv))
	})
	// massive-mode entry points in an isolated worker process: a panic in a library goroutine kills the
	// worker, which is reported with the input that did it
	var mjobs []c12job
	for i, d := range docs {
		if len(d) > 3 && i%5 != 0 && !ctx.Thorough {
			continue
		}
		if len(d) > 2000 {
			continue
		}
		entries := []string{"text", "json", "yaml", "dry", "walk", "verify", "mkdir"}
		if len(d) <= 2 {
			for _, e := range entries {
				mjobs = append(mjobs, c12job{e, hx(d)})
			}
		} else {
			mjobs = append(mjobs, c12job{entries[i%len(entries)], hx(d)})
		}
	}
	for i, d := range longBad {
		mjobs = append(mjobs, c12job{[]string{"text", "json", "walk", "dry"}[i%4], hx(d)})
	}
	for nbad := 3; nbad <= 12; nbad += 3 {
		var sb strings.Builder
		for i := 0; i < nbad; i++ {
			sb.WriteString("- r\n  x\n- s\n  -\n- t\n        - deep\n")
		}
		for _, e := range []string{"text", "json", "walk", "dry", "mkdir", "verify"} {
			mjobs = append(mjobs, c12job{e, hxs(sb.String())})
		}
	}
	nw := ctx.Workers / 2
	if nw < 1 {
		nw = 1
	}
	jobc := make(chan c12job, 64)
	var wg sync.WaitGroup
	for w := 0; w < nw; w++ {
		wg.Add(1)
		go func() {
			defer wg.Done()
			p := startC12Worker()
			defer func() { p.close() }()
			for j := range jobc {
				ans, crash := p.ask(j)
				var diffs []Diff
				if ans == "" {
					diffs = []Diff{{What: "massive-mode entry point " + j.Entry + " crashed the process", Real: crash, Model: "every entry point returns normally"}}
					p.close()
					p = startC12Worker()
				} else if ans == "hang" {
					diffs = []Diff{{What: "massive-mode entry point " + j.Entry + " did not return within 15 s", Real: "hang", Model: "returns"}}
					p.close()
					p = startC12Worker()
				} else if isBlankDoc(unhx(j.Doc)) && (j.Entry == "text" || j.Entry == "json" || j.Entry == "dry" || j.Entry == "walk") && ans != "ok nil 0" {
					diffs = []Diff{{What: "blank-only input in massive mode must give empty output and nil", Real: ans, Model: "ok nil 0"}}
				}
				c := map[string]string{"kind": "c12-massive", "entry": j.Entry, "doc_hex": j.Doc, "doc_text": docText(unhx(j.Doc))}
				rep.Record(c, "m:"+j.Entry+":"+j.Doc, len(j.Doc) >= 4, diffs)
				rep.Count("massive-entry:" + j.Entry + "/" + strings.Fields(ans + " ?")[1])
			}
		}()
	}
	for _, j := range mjobs {
		jobc <- j
	}
	close(jobc)
	wg.Wait()
	_ = bytes.MinRead
	_ = os.Getpid
	_ = filepath.Join
	_ = gtree.ErrExistPath
	return rep
}

func isBlankDoc(d []byte) bool {
	for _, l := range strings.Split(string(d), "\n") {
		if !isBlankGo(l) {
			return false
		}
	}
	return true
}
