package main

import (
	"bytes"
	"encoding/json"
	"fmt"
	"os"
	"path/filepath"
	"strings"
	"sync"
	"unicode/utf8"

	"github.com/ddddddO/gtree"
)

// C12: no input can crash or hang the library. Every byte string over a small hostile alphabet
// (exhaustive to a length bound) plus mutated documents go through every simple-mode entry point;
// the model predicts the outcome (it has no panic outcome: Props/C12.lean), a panic is a difference.
// Massive-mode entry points are exercised in an isolated worker process (see c10c11.go).

func init() { props["c12"] = runC12 }

func guard(f func() string) (res string) {
	defer func() {
		if r := recover(); r != nil {
			res = fmt.Sprintf("PANIC: %v", r)
		}
	}()
	return f()
}

func runC12(ctx *Ctx) *Report {
	rep := NewReport("C12")
	alphabet := []byte{'-', '#', ' ', '\t', '\n', 'a', 0xFF}
	maxLen := 4
	if ctx.Thorough {
		maxLen = 5
	}
	var docs [][]byte
	var rec func(prefix []byte)
	rec = func(prefix []byte) {
		docs = append(docs, append([]byte{}, prefix...))
		if len(prefix) == maxLen {
			return
		}
		for _, b := range alphabet {
			rec(append(prefix, b))
		}
	}
	rec(nil)
	rep.Exhaustive = true
	rep.Notes = append(rep.Notes, fmt.Sprintf("all %d byte strings of length ≤ %d over {'-','#',' ','\\t','\\n','a',0xFF} through 7 entry points", len(docs), maxLen))
	// mutated documents
	nm := 3000
	if ctx.Thorough {
		nm = 100000
	}
	base := [][]byte{
		[]byte("- a\n  - b\n    - c\n  - d\n- e\n"),
		[]byte("# r\n- a\n\t- b\n# s\n- c\n"),
		[]byte("* x\n    * y\n        * z\n"),
		[]byte("- a\r\n  - b\r\n"),
	}
	muts := []byte{'-', '*', '+', '#', ' ', '\t', '\n', '\r', 'a', 0xFF, 0xC2, 0x85, 0xE3, 0x80, 0x80, 0x00, '/', '.'}
	for i := 0; i < nm; i++ {
		d := append([]byte{}, base[ctx.Rng.Intn(len(base))]...)
		for k := 0; k < 1+ctx.Rng.Intn(4); k++ {
			pos := ctx.Rng.Intn(len(d) + 1)
			switch ctx.Rng.Intn(3) {
			case 0:
				d = append(d[:pos], append([]byte{muts[ctx.Rng.Intn(len(muts))]}, d[pos:]...)...)
			case 1:
				if pos < len(d) {
					d = append(d[:pos], d[pos+1:]...)
				}
			case 2:
				if pos < len(d) {
					d[pos] = muts[ctx.Rng.Intn(len(muts))]
				}
			}
		}
		docs = append(docs, d)
	}
	// blank rows made of Unicode white space (strings.TrimSpace semantics), alone and around items
	for _, ws := range []string{"\u3000", "\u00a0", "\u0085", "\u2028", "\u2029", "\u1680", "\u2003", "\u202f", "\u205f", "\v", "\f", " \u3000\t"} {
		docs = append(docs, []byte(ws), []byte(ws+"\n"), []byte(ws+"\n"+ws+"\n"), []byte(ws+"\n- a\n"+ws+"\n  - b\n"+ws), []byte("- a\n"+ws+"\n"))
	}
	// over-long lines around bufio's limit
	for _, n := range []int{65533, 65534, 65535, 65536, 70000} {
		docs = append(docs, []byte("- "+strings.Repeat("x", n-2)+"\n- b\n"))
		docs = append(docs, []byte("- a\n  - "+strings.Repeat("y", n-4)))
	}
	// ill-formed rows around 4 KiB / 64 KiB whose last character is a multi-byte one (error messages quote the row)
	var longBad [][]byte
	for _, n := range []int{4090, 4093, 4094, 4095, 4096, 4097, 8191, 65530} {
		for _, tail := range []string{"あ", "é", "😀", "\x80\x80\x80", "z"} {
			longBad = append(longBad, []byte(strings.Repeat("x", n)+tail+"\n"), []byte("- ok\n  "+strings.Repeat("q", n-2)+tail+"\n- after\n"))
		}
	}
	docs = append(docs, longBad...)
	// valid documents in which some node (the root, a child, a grandchild) has many distinct children: exactly 16,
	// 17, 31, 32, 33, 64, 65 and widths drawn from 32…70; with and without rows below the children, with a name
	// given twice (the second row finds the first one's node). They go through every entry point in both modes.
	var wideDocs [][]byte
	{
		widths := []int{15, 16, 17, 31, 32, 33, 34, 63, 64, 65, 70}
		for i := 0; i < 6; i++ {
			widths = append(widths, 32+ctx.Rng.Intn(39))
		}
		if ctx.Thorough {
			for w := 1; w <= 140; w++ {
				widths = append(widths, w)
			}
		}
		for wi, w := range widths {
			var sb strings.Builder
			depth := (wi + ctx.Rng.Intn(3)) % 3 // where the wide parent is: the root, a child of it, a grandchild
			switch depth {
			case 0:
				sb.WriteString("- wide\n")
			case 1:
				sb.WriteString("- r\n  - before\n  - wide\n")
			case 2:
				sb.WriteString("- r\n  - a\n    - wide\n")
			}
			ind := strings.Repeat("  ", depth+1)
			below := ctx.Rng.Intn(2) == 0
			for j := 0; j < w; j++ {
				sb.WriteString(ind + "- k" + itoa(j) + "\n")
				if below && j%5 == 0 {
					sb.WriteString(ind + "  - under.go\n")
				}
			}
			if ctx.Rng.Intn(2) == 0 {
				// a name that exists already (an early, a late one), with a row below it
				for _, again := range []int{0, w / 2, w - 1} {
					sb.WriteString(ind + "- k" + itoa(again) + "\n" + ind + "  - again\n")
				}
			}
			if depth > 0 {
				sb.WriteString("  - after\n")
			}
			sb.WriteString("- second\n  - x\n")
			wideDocs = append(wideDocs, []byte(sb.String()))
		}
	}
	kinds := []string{"iter-text", "batch-text", "iter-dry", "json", "yaml", "walk", "verify"}
	type job struct {
		doc  []byte
		kind string
	}
	var jobs []job
	for i, d := range docs {
		if len(d) > 1000 {
			for _, k := range []string{"iter-text", "batch-text", "walk"} {
				jobs = append(jobs, job{d, k})
			}
			continue
		}
		if len(d) <= maxLen {
			for _, k := range kinds {
				jobs = append(jobs, job{d, k})
			}
		} else {
			jobs = append(jobs, job{d, kinds[i%len(kinds)]})
		}
	}
	for _, d := range wideDocs {
		for _, k := range kinds {
			jobs = append(jobs, job{d, k})
		}
	}
	parallel(jobs, ctx.Workers, func(m *Model, j job) {
		var c Case
		switch j.kind {
		case "iter-text", "batch-text", "iter-dry":
			c = newCase("out")
			c.Mode = j.kind
			c.Exts = []string{"a"}
		case "json", "yaml":
			c = newCase("outf")
			c.Format = j.kind
			c.ErrOnly = !utf8.Valid(j.doc)
		case "walk":
			c = newCase("walk")
		case "verify":
			c = newCase("verify")
			c.Target = "t"
			c.Pre = []FSEntry{{"t", "d"}, {"t/a", "d"}}
		}
		c.Doc = hx(j.doc)
		if len(j.doc) < 200 {
			c.DocText = docText(j.doc)
		} else {
			c.DocText = fmt.Sprintf("<%d bytes>", len(j.doc))
		}
		var diffs []Diff
		var realv string
		p := guard(func() string {
			diffs, realv = runCaseR(m, c)
			return ""
		})
		if p != "" {
			diffs = []Diff{{What: "panic", Real: p, Model: "every entry point returns normally"}}
		}
		if isBlankDoc(j.doc) && (j.kind == "iter-text" || j.kind == "batch-text" || j.kind == "iter-dry") && realv != "w=- e=nil" && p == "" {
			diffs = append(diffs, Diff{What: "blank-only input must give empty output and nil", Real: realv, Model: "w=- e=nil"})
		}
		rep.Record(c, caseKey(c), len(j.doc) >= 2, diffs)
		rep.Count("entry:" + j.kind + "/" + resultClass(realv))
	})
	// mkdir real + dry in a jail for the short strings (serial part kept small)
	var mk []Case
	for i, d := range docs {
		if len(d) > 3 && i%37 != 0 {
			continue
		}
		if len(d) > 300 {
			continue
		}
		for _, dry := range []bool{false, true} {
			c := newCase("mkdir")
			c.Doc, c.DocText, c.Target, c.Dry, c.Pre = hx(d), docText(d), "t", dry, []FSEntry{{"t", "d"}}
			mk = append(mk, c)
		}
	}
	for wi, d := range wideDocs {
		c := newCase("mkdir")
		c.Doc, c.DocText, c.Target, c.Dry, c.Pre, c.Exts = hx(d), "<a wide parent>", "t", wi%2 == 0, []FSEntry{{"t", "d"}}, []string{".go"}
		mk = append(mk, c)
	}
	parallel(mk, ctx.Workers, func(m *Model, c Case) {
		var diffs []Diff
		var realv string
		p := guard(func() string {
			diffs, realv = runCaseR(m, c)
			return ""
		})
		if p != "" {
			diffs = []Diff{{What: "panic", Real: p, Model: "every entry point returns normally"}}
		}
		rep.Record(c, caseKey(c), len(c.Doc) >= 4, diffs)
		rep.Count("entry:mkdir" + ifs(c.Dry, "-dry", "") + "/" + resultClass(realv))
	})
	writerFaults(ctx, rep)
	// massive-mode entry points in an isolated worker process: a panic in a library goroutine kills the
	// worker, which is reported with the input that did it
	var mjobs []c12job
	for i, d := range docs {
		if len(d) > 3 && i%5 != 0 && !ctx.Thorough {
			continue
		}
		if len(d) > 2000 {
			continue
		}
		entries := []string{"text", "json", "yaml", "dry", "walk", "verify", "mkdir"}
		if len(d) <= 2 {
			for _, e := range entries {
				mjobs = append(mjobs, c12job{e, hx(d)})
			}
		} else {
			mjobs = append(mjobs, c12job{entries[i%len(entries)], hx(d)})
		}
	}
	for i, d := range longBad {
		mjobs = append(mjobs, c12job{[]string{"text", "json", "walk", "dry"}[i%4], hx(d)})
	}
	for _, d := range wideDocs {
		for _, e := range []string{"text", "json", "yaml", "dry", "walk", "verify", "mkdir"} {
			mjobs = append(mjobs, c12job{e, hx(d)})
		}
	}
	// rows beyond the scanner's limit through EVERY massive entry point (the splitter is the stage that reports them;
	// every pipeline has to listen to it)
	for _, n := range []int{65536, 70000} {
		for _, d := range [][]byte{[]byte("- " + strings.Repeat("x", n-2) + "\n- b\n"), []byte("- a\n  - b\n- c\n  - " + strings.Repeat("y", n) + "\n- d\n")} {
			for _, e := range []string{"text", "json", "yaml", "dry", "walk", "verify", "mkdir", "mkdir-alias", "mkdir-dry"} {
				mjobs = append(mjobs, c12job{e, hx(d)})
			}
		}
	}
	for nbad := 3; nbad <= 12; nbad += 3 {
		var sb strings.Builder
		for i := 0; i < nbad; i++ {
			sb.WriteString("- r\n  x\n- s\n  -\n- t\n        - deep\n")
		}
		for _, e := range []string{"text", "json", "walk", "dry", "mkdir", "verify"} {
			mjobs = append(mjobs, c12job{e, hxs(sb.String())})
		}
	}
	nw := ctx.Workers / 2
	if nw < 1 {
		nw = 1
	}
	jobc := make(chan c12job, 64)
	var wg sync.WaitGroup
	for w := 0; w < nw; w++ {
		wg.Add(1)
		go func() {
			defer wg.Done()
			p := startC12Worker()
			defer func() { p.close() }()
			for j := range jobc {
				ans, crash := p.ask(j)
				var diffs []Diff
				if ans == "" {
					diffs = []Diff{{What: "massive-mode entry point " + j.Entry + " crashed the process", Real: crash, Model: "every entry point returns normally"}}
					p.close()
					p = startC12Worker()
				} else if ans == "hang" {
					diffs = []Diff{{What: "massive-mode entry point " + j.Entry + " did not return within 15 s", Real: "hang", Model: "returns"}}
					p.close()
					p = startC12Worker()
				} else if isBlankDoc(unhx(j.Doc)) && (j.Entry == "text" || j.Entry == "json" || j.Entry == "dry" || j.Entry == "walk") && ans != "ok nil 0" {
					diffs = []Diff{{What: "blank-only input in massive mode must give empty output and nil", Real: ans, Model: "ok nil 0"}}
				}
				c := map[string]string{"kind": "c12-massive", "entry": j.Entry, "doc_hex": j.Doc, "doc_text": docText(unhx(j.Doc))}
				rep.Record(c, "m:"+j.Entry+":"+j.Doc, len(j.Doc) >= 4, diffs)
				rep.Count("massive-entry:" + j.Entry + "/" + strings.Fields(ans + " crashed ?")[1])
			}
		}()
	}
	for _, j := range mjobs {
		jobc <- j
	}
	close(jobc)
	wg.Wait()
	_ = bytes.MinRead
	_ = os.Getpid
	_ = filepath.Join
	_ = gtree.ErrExistPath
	return rep
}

func isBlankDoc(d []byte) bool {
	for _, l := range strings.Split(string(d), "\n") {
		if !isBlankGo(l) {
			return false
		}
	}
	return true
}

// ---------------------------------------------------------------- writers that fail (C12: the call returns, with an error)

// limitWriter accepts `limit` bytes in all and fails from then on (a full disk, a closed pipe).
type limitWriter struct {
	limit  int
	n      int
	failed bool
}

func (w *limitWriter) Write(p []byte) (int, error) {
	if w.failed || w.n+len(p) > w.limit {
		k := w.limit - w.n
		if k < 0 || w.failed {
			k = 0
		}
		w.n += k
		w.failed = true
		return k, errWriter
	}
	w.n += len(p)
	return len(p), nil
}

type wfCase struct {
	Kind      string `json:"kind"`
	Doc       string `json:"doc_hex,omitempty"`
	Label     string `json:"document"`
	Malformed bool   `json:"malformed,omitempty"`
	Mode      string `json:"mode"`
	FailAt    int    `json:"writer_fails_at_call"`     // -1: see Limit
	Limit     int    `json:"writer_fails_after_bytes"` // -1: see FailAt
	Short     int    `json:"short,omitempty"`
}

func init() {
	replayers["writer-fault"] = func(m *Model, raw json.RawMessage) []Diff {
		var c wfCase
		json.Unmarshal(raw, &c)
		return runWriterFault(c)
	}
}

// runWriterFault: whatever the size of the printed tree and wherever the writer starts failing, every
// simple-mode output path returns – with an error when the writer failed or the document is malformed.
func runWriterFault(c wfCase) []Diff {
	doc := unhx(c.Doc)
	var opts []gtree.Option
	fromRoot := false
	switch c.Mode {
	case "iter-text":
	case "iter-text-fmt":
		opts = fmtOpts(fmtCustom)
	case "batch-text":
		opts = []gtree.Option{gtree.WithNoUseIterOfSimpleOutput()}
	case "json", "yaml", "toml":
		opts = []gtree.Option{encodeOpt(c.Mode)}
	case "json-batch":
		opts = []gtree.Option{gtree.WithEncodeJSON(), gtree.WithNoUseIterOfSimpleOutput()}
	case "dry":
		opts = []gtree.Option{gtree.WithDryRun(), gtree.WithFileExtensions([]string{".go"})}
	case "dry-batch":
		opts = []gtree.Option{gtree.WithDryRun(), gtree.WithNoUseIterOfSimpleOutput()}
	case "root-text", "root-json", "root-dry":
		fromRoot = true
		opts = map[string][]gtree.Option{"root-text": nil, "root-json": {gtree.WithEncodeJSON()}, "root-dry": {gtree.WithDryRun()}}[c.Mode]
	}
	var w interface {
		Write([]byte) (int, error)
	}
	failed := func() bool { return false }
	if c.Limit >= 0 {
		lw := &limitWriter{limit: c.Limit}
		w, failed = lw, func() bool { return lw.failed }
	} else {
		fw := &faultWriter{failAt: c.FailAt, short: c.Short}
		w, failed = fw, func() bool { return fw.failed }
	}
	var err error
	p := guard(func() string {
		if fromRoot {
			// the first root of the document, built with NewRoot/Add
			var t *Tree
			if f := docForest(doc); len(f) > 0 {
				t = f[0]
			} else {
				t = &Tree{Name: "r"}
			}
			err = gtree.OutputFromRoot(w, buildRoot(t), opts...)
		} else if c.FailAt%2 == 1 {
			err = gtree.Output(w, bytes.NewReader(doc), opts...)
		} else {
			err = gtree.OutputFromMarkdown(w, bytes.NewReader(doc), opts...)
		}
		return ""
	})
	if p != "" {
		return []Diff{{What: "panic with a failing writer (" + c.Mode + ", " + c.Label + ")", Real: p, Model: "the call returns the writer's error"}}
	}
	var d []Diff
	if failed() && err == nil {
		d = append(d, Diff{What: "the writer failed and the call returned nil (" + c.Mode + ", " + c.Label + ")", Real: "nil", Model: "an error"})
	}
	if c.Malformed && !fromRoot && err == nil {
		d = append(d, Diff{What: "a malformed document was accepted (" + c.Mode + ", " + c.Label + ")", Real: "nil", Model: "an error"})
	}
	return d
}

// docForest reads a two-space, hyphen-bullet document (as spelled by plainSpelling) back into a forest (harness helper).
func docForest(doc []byte) []*Tree {
	var roots []*Tree
	var stack []*Tree
	for _, l := range strings.Split(strings.TrimSuffix(string(doc), "\n"), "\n") {
		t := strings.TrimLeft(l, " ")
		depth := (len(l) - len(t)) / 2
		if !strings.HasPrefix(t, "- ") || depth > len(stack) {
			break
		}
		n := &Tree{Name: strings.TrimPrefix(t, "- ")}
		if depth == 0 {
			roots = append(roots, n)
		} else {
			stack[depth-1].Kids = append(stack[depth-1].Kids, n)
		}
		stack = append(stack[:depth], n)
	}
	return roots
}

func writerFaults(ctx *Ctx, rep *Report) {
	type wdoc struct {
		label     string
		doc       []byte
		malformed bool
	}
	var wdocs []wdoc
	mkWide := func(n, nameLen int) []*Tree {
		t := &Tree{Name: "big"}
		for j := 0; j < n; j++ {
			t.Kids = append(t.Kids, &Tree{Name: "child-" + itoa(j) + "-" + strings.Repeat("x", nameLen), Kids: []*Tree{{Name: "leaf.go"}}})
		}
		return []*Tree{t}
	}
	small := []*Tree{{Name: "a", Kids: []*Tree{{Name: "b"}, {Name: "c.go"}}}, {Name: "d"}}
	var roots30 []*Tree
	for i := 0; i < 30; i++ {
		roots30 = append(roots30, &Tree{Name: "r" + itoa(i), Kids: []*Tree{{Name: "x", Kids: []*Tree{{Name: "y.go"}}}, {Name: "z"}}})
	}
	wdocs = append(wdocs,
		wdoc{"a small tree", spell(small, plainSpelling), false},
		wdoc{"one root, printed tree of about 6 KiB", spell(mkWide(60, 20), plainSpelling), false},
		wdoc{"one root, printed tree of about 5 KiB, " + itoa(33+ctx.Rng.Intn(40)) + " children", spell(mkWide(33+ctx.Rng.Intn(40), 30), plainSpelling), false},
		wdoc{"one root, printed tree of more than 64 KiB", spell(mkWide(900, 30), plainSpelling), false},
		wdoc{"30 roots", spell(roots30, plainSpelling), false},
		wdoc{"1500 roots, more than 64 KiB", spell(bigShapes()["huge"], plainSpelling), false},
	)
	for _, bad := range []string{"      - too deep\n", "  x\n", "  -\n", "\t- other indent\n"} {
		wdocs = append(wdocs,
			wdoc{"two roots, then a malformed row", []byte("- a\n  - b\n- c\n  - d\n- e\n" + bad + "- after\n"), true},
			wdoc{"30 roots, then a malformed row", append(spell(roots30, plainSpelling), []byte("- bad\n"+bad)...), true},
			wdoc{"a root of about 6 KiB, a small root, then a malformed row", append(spell(append(mkWide(60, 20), small...), plainSpelling), []byte("- bad\n"+bad)...), true},
		)
	}
	modes := []string{"iter-text", "iter-text-fmt", "batch-text", "json", "yaml", "toml", "json-batch", "dry", "dry-batch", "root-text", "root-json", "root-dry"}
	var cs []wfCase
	for di, wd := range wdocs {
		for mi, mode := range modes {
			if strings.HasPrefix(mode, "root-") && wd.malformed {
				continue
			}
			calls := []int{0, 1, 2, 3, 7, 40, 100 + ctx.Rng.Intn(100), 1000 + ctx.Rng.Intn(1000)}
			limits := []int{0, 1, 7, 100, 4095, 4096, 4097, 8192 + ctx.Rng.Intn(100), 10000, 65535, 65536, 65537, 70000 + ctx.Rng.Intn(5000)}
			for ci, k := range calls {
				if !ctx.Thorough && len(wd.doc) > 100000 && ci%2 == 1 {
					continue
				}
				cs = append(cs, wfCase{Kind: "writer-fault", Doc: hx(wd.doc), Label: wd.label, Malformed: wd.malformed, Mode: mode, FailAt: k, Limit: -1, Short: []int{0, 0, 1, 5}[(di+mi+ci)%4]})
			}
			for li, n := range limits {
				if !ctx.Thorough && len(wd.doc) > 100000 && li%2 == 1 {
					continue
				}
				cs = append(cs, wfCase{Kind: "writer-fault", Doc: hx(wd.doc), Label: wd.label, Malformed: wd.malformed, Mode: mode, FailAt: -1, Limit: n})
			}
		}
	}
	parallel(cs, ctx.Workers, func(m *Model, c wfCase) {
		diffs := runWriterFault(c)
		key := c.Label + "/" + c.Mode + "/" + itoa(c.FailAt) + "/" + itoa(c.Limit) + "/" + itoa(c.Short)
		rc := c
		if len(diffs) == 0 && len(rc.Doc) > 4000 {
			rc.Doc = "" // a replay file carries the document; the samples of the evidence only its description
		}
		rep.Record(rc, key, true, diffs)
		rep.Count("writer-fault:" + c.Mode)
	})
}
