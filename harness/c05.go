package main

// C05: walk visits the rendered tree; callback failure / iterator break at every position.

func init() { props["c05"] = runC05 }

func runC05(ctx *Ctx) *Report {
	rep := NewReport("C05")
	n := 5
	if ctx.Thorough {
		n = 6
	}
	forests := forestsUpTo(n, []string{"a", "b"})
	formats := allFormats()
	var cases []Case
	for i, f := range forests {
		size := 0
		for _, t := range f {
			size += t.Size()
		}
		doc := spell(f, coveringSpellings()[i%len(coveringSpellings())])
		fm := formats[i%len(formats)]
		for k := -1; k <= size; k++ {
			c := newCase("walk")
			c.Doc, c.DocText, c.Fmt, c.FailAt, c.Tree = hx(doc), docText(doc), fm, k, encForest(f)
			c.Alias = k%2 == 0
			cases = append(cases, c)
		}
		if len(f) == 1 {
			for k := -1; k <= size; k++ {
				c := newCase("rootwalk")
				c.Tree, c.Fmt, c.FailAt = f[0].Enc(), fm, k
				cases = append(cases, c)
				c = newCase("rootiter")
				c.Tree, c.Fmt, c.Break = f[0].Enc(), fm, k
				c.Alias = k%2 == 0
				cases = append(cases, c)
			}
		}
	}
	rep.Exhaustive = true
	rep.Notes = append(rep.Notes, "every forest ≤ "+itoa(n)+" nodes over 2 names × every callback-failure / iterator-break position (and none)")
	// random large forests with names that are not single path elements (Path goes through path.Join/Clean)
	nr := 600
	if ctx.Thorough {
		nr = 20000
	}
	for k := 0; k < nr; k++ {
		f := randForest(ctx.Rng, 1+ctx.Rng.Intn(40), []string{"plain", "bullets", "blanks", "unicode", "quotes", "path"}, 3, rep.Dist)
		if !representable(f, plainSpelling) {
			continue
		}
		doc := spell(f, plainSpelling)
		c := newCase("walk")
		c.Doc, c.DocText, c.Fmt, c.Tree = hx(doc), docText(doc), formats[k%len(formats)], encForest(f)
		cases = append(cases, c)
		if len(f) >= 1 {
			c := newCase("rootwalk")
			c.Tree, c.Fmt = f[0].Enc(), formats[k%len(formats)]
			cases = append(cases, c)
		}
	}
	// large shapes; callbacks that use the library themselves while the walk is in progress
	for bi, name := range []string{"deep", "wide", "many-roots", "long-names"} {
		f := bigShapes()[name]
		doc := spell(f, plainSpelling)
		c := newCase("walk")
		c.Doc, c.DocText, c.Fmt, c.Tree, c.Note = hx(doc), "<"+name+">", formats[bi%len(formats)], "", "big:"+name
		cases = append(cases, c)
		c.Busy = true
		cases = append(cases, c)
		if len(f) == 1 {
			for _, brk := range []int{-1, 7, 40} {
				c2 := newCase("rootiter")
				c2.Tree, c2.Fmt, c2.Break, c2.Note = f[0].Enc(), formats[bi%len(formats)], brk, "big:"+name
				cases = append(cases, c2)
			}
			c3 := newCase("rootwalk")
			c3.Tree, c3.Fmt, c3.Busy, c3.Note = f[0].Enc(), formats[bi%len(formats)], true, "big:"+name
			cases = append(cases, c3)
		}
	}
	enumForests(4, []string{"a", "b"}, func(f []*Tree) {
		t := &Tree{Name: "r", Kids: f}
		c := newCase("rootwalk")
		c.Tree, c.Fmt, c.Busy = t.Enc(), fmtDefault, true
		cases = append(cases, c)
		doc := spell([]*Tree{t}, plainSpelling)
		c2 := newCase("walk")
		c2.Doc, c2.DocText, c2.Fmt, c2.Busy, c2.Tree = hx(doc), docText(doc), fmtDefault, true, t.Enc()
		cases = append(cases, c2)
	})
	runCases(rep, cases, ctx.Workers, func(c Case) bool { return c.Note != "" || nonTrivialEnc(c.Tree) })
	return rep
}
