package main

import (
	"bytes"
	"context"
	"github.com/ddddddO/gtree"
	"strings"
)

// C05: walk visits the rendered tree; callback failure / iterator break at every position.

func init() { props["c05"] = runC05 }

func runC05(ctx *Ctx) *Report {
	rep := NewReport("C05")
	n := 5
	if ctx.Thorough {
		n = 6
	}
	forests := forestsUpTo(n, []string{"a", "b"})
	formats := allFormats()
	var cases []Case
	for i, f := range forests {
		size := 0
		for _, t := range f {
			size += t.Size()
		}
		doc := spell(f, coveringSpellings()[i%len(coveringSpellings())])
		fm := formats[i%len(formats)]
		for k := -1; k <= size; k++ {
			c := newCase("walk")
			c.Doc, c.DocText, c.Fmt, c.FailAt, c.Tree = hx(doc), docText(doc), fm, k, encForest(f)
			c.Alias = k%2 == 0
			cases = append(cases, c)
		}
		if len(f) == 1 {
			for k := -1; k <= size; k++ {
				c := newCase("rootwalk")
				c.Tree, c.Fmt, c.FailAt = f[0].Enc(), fm, k
				cases = append(cases, c)
				c = newCase("rootiter")
				c.Tree, c.Fmt, c.Break = f[0].Enc(), fm, k
				c.Alias = k%2 == 0
				cases = append(cases, c)
			}
		}
	}
	rep.Exhaustive = true
	rep.Notes = append(rep.Notes, "every forest ≤ "+itoa(n)+" nodes over 2 names × every callback-failure / iterator-break position (and none)")
	// random large forests with names that are not single path elements (Path goes through path.Join/Clean)
	nr := 600
	if ctx.Thorough {
		nr = 20000
	}
	for k := 0; k < nr; k++ {
		f := randForest(ctx.Rng, 1+ctx.Rng.Intn(40), []string{"plain", "bullets", "blanks", "unicode", "quotes", "path"}, 3, rep.Dist)
		if !representable(f, plainSpelling) {
			continue
		}
		doc := spell(f, plainSpelling)
		c := newCase("walk")
		c.Doc, c.DocText, c.Fmt, c.Tree = hx(doc), docText(doc), formats[k%len(formats)], encForest(f)
		cases = append(cases, c)
		if len(f) >= 1 {
			c := newCase("rootwalk")
			c.Tree, c.Fmt = f[0].Enc(), formats[k%len(formats)]
			cases = append(cases, c)
		}
	}
	// calls without any option, also right after an option-less Verify in the same process (whatever an earlier call
	// switched on in a part of the tree must not reach this one: a walk never validates names): names that are not
	// single path elements, ".", ".." among them
	nn := 300
	if ctx.Thorough {
		nn = 5000
	}
	for k := 0; k < nn; k++ {
		f := randForest(ctx.Rng, 1+ctx.Rng.Intn(12), []string{"path", "plain", "path", "unicode"}, 3, rep.Dist)
		if !representable(f, plainSpelling) {
			continue
		}
		doc := spell(f, plainSpelling)
		c := newCase("walk")
		c.Doc, c.DocText, c.Fmt, c.Tree, c.NoOpts = hx(doc), docText(doc), fmtDefault, encForest(f), true
		c.Alias = k%4 == 1
		if k%2 == 0 {
			c.Prior = "verify"
		}
		cases = append(cases, c)
		c2 := newCase("rootwalk")
		c2.Tree, c2.Fmt, c2.NoOpts, c2.Prior, c2.Alias = f[0].Enc(), fmtDefault, true, c.Prior, k%4 == 3
		cases = append(cases, c2)
	}
	// whatever error the callback returns – also the sentinels other walkers give a meaning to – ends the walk and comes back
	enumForests(4, []string{"a", "b"}, func(f []*Tree) {
		t := &Tree{Name: "r", Kids: f}
		doc := spell([]*Tree{t}, plainSpelling)
		for ki, kind := range []string{"skipdir", "skipall", "eof", "wrapped-skipdir", "canceled"} {
			for _, at := range []int{0, 1, 3} {
				c := newCase("rootwalk")
				c.Tree, c.Fmt, c.FailAt, c.CbErr = t.Enc(), fmtDefault, at, kind
				cases = append(cases, c)
				c2 := newCase("walk")
				c2.Doc, c2.DocText, c2.Fmt, c2.FailAt, c2.CbErr, c2.Tree, c2.Alias = hx(doc), docText(doc), fmtDefault, at, kind, t.Enc(), ki%2 == 0
				cases = append(cases, c2)
			}
		}
	})
	// large shapes; callbacks that use the library themselves while the walk is in progress
	for bi, name := range []string{"deep", "wide", "many-roots", "long-names"} {
		f := bigShapes()[name]
		doc := spell(f, plainSpelling)
		c := newCase("walk")
		c.Doc, c.DocText, c.Fmt, c.Tree, c.Note = hx(doc), "<"+name+">", formats[bi%len(formats)], "", "big:"+name
		cases = append(cases, c)
		c.Busy = true
		cases = append(cases, c)
		if len(f) == 1 {
			for _, brk := range []int{-1, 7, 40} {
				c2 := newCase("rootiter")
				c2.Tree, c2.Fmt, c2.Break, c2.Note = f[0].Enc(), formats[bi%len(formats)], brk, "big:"+name
				cases = append(cases, c2)
			}
			c3 := newCase("rootwalk")
			c3.Tree, c3.Fmt, c3.Busy, c3.Note = f[0].Enc(), formats[bi%len(formats)], true, "big:"+name
			cases = append(cases, c3)
		}
	}
	enumForests(4, []string{"a", "b"}, func(f []*Tree) {
		t := &Tree{Name: "r", Kids: f}
		c := newCase("rootwalk")
		c.Tree, c.Fmt, c.Busy = t.Enc(), fmtDefault, true
		cases = append(cases, c)
		doc := spell([]*Tree{t}, plainSpelling)
		c2 := newCase("walk")
		c2.Doc, c2.DocText, c2.Fmt, c2.Busy, c2.Tree = hx(doc), docText(doc), fmtDefault, true, t.Enc()
		cases = append(cases, c2)
	})
	// rows whose line ending is not the plain one: CR LF, CR CR LF, CR CR CR LF, an unterminated last row that ends in
	// CR or CR CR (the scanner takes one CR with the LF; what is left belongs to the name). The walk reads its rows
	// with another function than the text output does: the visits are compared with the model and, line by line,
	// with what OutputFromMarkdown prints for the same bytes
	{
		var eolCases []Case
		ends := []string{"\n", "\r\n", "\r\r\n", "\r\r\r\n", "\r\r\n", "\n"}
		lf := lineFormats()
		for k := 0; k < pick(ctx.Thorough, 6000, 400); k++ {
			f := randForest(ctx.Rng, 1+ctx.Rng.Intn(12), []string{"plain", "plain", "bullets", "blanks", "quotes"}, 3, rep.Dist)
			sp := randSpelling(ctx.Rng)
			sp.CRLF, sp.FinalNL = false, true
			if !representable(f, sp) {
				sp.Sharp, sp.NoSpace = false, false
			}
			if !representable(f, sp) {
				continue
			}
			rows := strings.Split(strings.TrimSuffix(string(spell(f, sp)), "\n"), "\n")
			var sb strings.Builder
			mode := ctx.Rng.Intn(4) // 0: one kind of ending on every row; 1: a random ending per row; 2: one odd row; 3: like 1, last row unterminated
			one := ends[1+ctx.Rng.Intn(3)]
			odd := ctx.Rng.Intn(len(rows))
			for i, r := range rows {
				e := "\n"
				switch mode {
				case 0:
					e = one
				case 1, 3:
					e = ends[ctx.Rng.Intn(len(ends))]
				case 2:
					if i == odd {
						e = one
					}
				}
				if i == len(rows)-1 && (mode == 3 || ctx.Rng.Intn(5) == 0) {
					e = []string{"", "\r", "\r\r", "\r\r\r"}[ctx.Rng.Intn(4)]
				}
				if ctx.Rng.Intn(12) == 0 {
					// the same row once more with another ending: two names that differ by a trailing CR are two nodes
					sb.WriteString(r + e)
					e = ends[ctx.Rng.Intn(len(ends))]
				}
				sb.WriteString(r + e)
			}
			doc := []byte(sb.String())
			c := newCase("walk")
			c.Doc, c.DocText, c.Fmt, c.Note = hx(doc), docText(doc), lf[k%len(lf)], "eol"
			c.Alias = k%2 == 0
			eolCases = append(eolCases, c)
		}
		for _, d := range []string{"- a\r\r\n  - b\r\r\n- c\r\r\n", "- r\n  - a\n  - a\r\r\n  - b\n", "- r\r\n  - a\r\r", "- r\n  - a\r\r\r\n  - a\r\r\n  - a\r\n", "# h\r\r\n- x\r\n- y\r\r\n", "- a\r\r"} {
			c := newCase("walk")
			c.Doc, c.DocText, c.Fmt, c.Note = hxs(d), d, fmtDefault, "eol"
			eolCases = append(eolCases, c)
		}
		parallel(eolCases, ctx.Workers, func(m *Model, c Case) {
			diffs, realv := runCaseR(m, c)
			diffs = append(diffs, walkVsOutput(c)...)
			rep.Record(c, caseKey(c), true, diffs)
			rep.Count("eol-walk:" + resultClass(realv))
		})
	}
	runCases(rep, cases, ctx.Workers, func(c Case) bool { return c.Note != "" || nonTrivialEnc(c.Tree) })
	// the same root through several operations with different branch strings, and an iterator that is created
	// before the tree is finished: every walk shows the tree as it is, drawn with the walk's own options
	{
		m := NewModel()
		defer m.Close()
		fms := allFormats()
		k := 0
		enumForests(4, []string{"a", "b"}, func(f []*Tree) {
			k++
			if k%3 != 0 {
				return
			}
			t := &Tree{Name: "r", Kids: f}
			fa, fb := fms[k%len(fms)], fms[(k/3+1)%len(fms)]
			root := buildRoot(t)
			walk := func(opts []gtree.Option) string {
				var vs []string
				err := gtree.WalkFromRoot(root, func(wn *gtree.WalkerNode) error { vs = append(vs, showVisit(wn)); return nil }, opts...)
				return "v=" + showVisits(vs) + " e=" + classify(err)
			}
			iterate := func(seq func(func(*gtree.WalkerNode, error) bool)) string {
				var vs []string
				var ierr error
				for wn, err := range seq {
					if err != nil {
						ierr = err
						break
					}
					vs = append(vs, showVisit(wn))
				}
				return "v=" + showVisits(vs) + " e=" + classify(ierr)
			}
			var diffs []Diff
			wantA := m.Ask("rootwalk " + fa.enc() + " n " + addMirror(t).Enc())
			diffs = append(diffs, cmp("walk(A)", walk(fmtOpts(fa)), wantA)...)
			var sink bytes.Buffer
			gtree.OutputFromRoot(&sink, root, fmtOpts(fb)...)
			diffs = append(diffs, cmp("walk(A) after text output with other branch strings", walk(fmtOpts(fa)), wantA)...)
			gtree.WalkFromRoot(root, func(*gtree.WalkerNode) error { return nil }, append(fmtOpts(fb), gtree.WithMassive(context.Background()))...)
			diffs = append(diffs, cmp("walk(A) after a massive walk with other branch strings", walk(fmtOpts(fa)), wantA)...)
			diffs = append(diffs, cmp("iterator(A) after all that", iterate(gtree.WalkIterFromRoot(root, fmtOpts(fa)...)), strings.Replace(m.Ask("rootiter "+fa.enc()+" n "+addMirror(t).Enc()), "", "", 0))...)
			// an iterator made now, ranged after one more Add and another operation
			seq := gtree.WalkIterFromRoot(root, fmtOpts(fa)...)
			root.Add("late").Add("later")
			t2 := &Tree{Name: t.Name, Kids: append(append([]*Tree{}, t.Kids...), &Tree{Name: "late", Kids: []*Tree{{Name: "later"}}})}
			gtree.OutputFromRoot(&sink, root, fmtOpts(fb)...)
			diffs = append(diffs, cmp("iterator(A) created before an Add and another operation, ranged after", iterate(seq), m.Ask("rootiter "+fa.enc()+" n "+addMirror(t2).Enc()))...)
			diffs = append(diffs, cmp("the same iterator value ranged again", iterate(seq), m.Ask("rootiter "+fa.enc()+" n "+addMirror(t2).Enc()))...)
			rep.Record(map[string]any{"kind": "root-reuse", "tree": t.Enc(), "fmtA": fa, "fmtB": fb}, "reuse:"+t.Enc()+fmtInt(k), true, diffs)
			rep.Count("root-reuse")
		})
	}
	return rep
}

// walkVsOutput evaluates the first clause of C05 directly on the real code: the walk (callback form) visits
// the nodes in the order of the text output's lines, Row is that line and is Branch + space + Name.
func walkVsOutput(c Case) []Diff {
	doc := c.doc()
	fo := fmtOpts(c.Fmt)
	var out bytes.Buffer
	eo := gtree.OutputFromMarkdown(&out, bytes.NewReader(doc), fo...)
	type visit struct {
		row, branch, name string
		level             uint
	}
	var vs []visit
	cb := func(wn *gtree.WalkerNode) error {
		vs = append(vs, visit{wn.Row(), wn.Branch(), wn.Name(), wn.Level()})
		return nil
	}
	var ew error
	if c.Alias {
		ew = gtree.Walk(bytes.NewReader(doc), cb, fo...)
	} else {
		ew = gtree.WalkFromMarkdown(bytes.NewReader(doc), cb, fo...)
	}
	if classify(eo) != classify(ew) {
		return []Diff{{What: "walk and text output of the same document end differently", Real: "walk: " + classify(ew), Model: "output: " + classify(eo)}}
	}
	if eo != nil {
		return nil
	}
	lines := strings.Split(out.String(), "\n")
	if n := len(lines); n > 0 && lines[n-1] == "" {
		lines = lines[:n-1]
	}
	if len(lines) != len(vs) {
		return []Diff{{What: "the walk makes another number of visits than the text output has lines", Real: itoa(len(vs)) + " visits", Model: itoa(len(lines)) + " lines: " + hx(out.Bytes())}}
	}
	for i, v := range vs {
		if v.row != lines[i] {
			return []Diff{{What: "Row of visit " + itoa(i) + " is not line " + itoa(i) + " of the text output", Real: hxs(v.row), Model: hxs(lines[i])}}
		}
		want := v.branch + " " + v.name
		if v.level == 1 {
			want = v.name
		}
		if v.row != want {
			return []Diff{{What: "Row of visit " + itoa(i) + " is not Branch + space + Name", Real: hxs(v.row), Model: hxs(want)}}
		}
	}
	return nil
}
