module verifharness

go 1.24

require (
	github.com/ddddddO/gtree v0.0.0
	github.com/fatih/color v1.18.0
	github.com/pelletier/go-toml/v2 v2.2.4
	gopkg.in/yaml.v3 v3.0.1
)

require (
	github.com/mattn/go-colorable v0.1.13 // indirect
	github.com/mattn/go-isatty v0.0.20 // indirect
	golang.org/x/sync v0.13.0 // indirect
	golang.org/x/sys v0.25.0 // indirect
)

replace github.com/ddddddO/gtree => /repo
