package main

import (
	"bytes"
	"context"
	"fmt"
	"io"
	"io/fs"
	"os"
	"path/filepath"
	"runtime/debug"
	"strings"

	"github.com/ddddddO/gtree"
	"github.com/fatih/color"
)

// Case is a self-contained description of one differential case; runCase is a pure function of it,
// so a replay file is just the JSON of the Case.
type Case struct {
	Kind      string    `json:"kind"`
	Doc       string    `json:"doc_hex,omitempty"`
	DocText   string    `json:"doc_text,omitempty"` // informational
	Tree      string    `json:"tree,omitempty"`     // (hexname child…)
	Fmt       Fmt4      `json:"fmt"`
	Mode      string    `json:"mode,omitempty"`
	Format    string    `json:"format,omitempty"`
	Exts      []string  `json:"exts,omitempty"`
	Fail      bool      `json:"reader_fails,omitempty"`
	WFail     int       `json:"writer_fail_at"` // -1: never
	Short     int       `json:"short,omitempty"`
	FailAt    int       `json:"callback_fail_at"` // -1: never
	Break     int       `json:"break_after"`      // -1: never
	Target    string    `json:"target,omitempty"` // relative to the jail
	Strict    bool      `json:"strict,omitempty"`
	Dry       bool      `json:"dry,omitempty"`
	Pre       []FSEntry `json:"pre,omitempty"`
	FromRoot  bool      `json:"from_root,omitempty"`
	Alias     bool      `json:"alias,omitempty"` // use the deprecated alias
	Massive   bool      `json:"massive,omitempty"`
	Note      string    `json:"note,omitempty"`
	ErrOnly   bool      `json:"compare_error_only,omitempty"`         // invalid UTF-8 names: encoders substitute U+FFFD (library behaviour)
	Texts     []string  `json:"item_texts,omitempty"`                 // item text of every non-blank row (for the no-silent-loss check)
	Stray     string    `json:"stray_option,omitempty"`               // an output-encoding option given to mkdir / verify / walk, where it must not matter
	Busy      bool      `json:"busy_elsewhere,omitempty"`             // the consumer of the iterator builds another tree between two items
	Chunk     int       `json:"reader_chunk,omitempty"`               // the reader delivers at most this many bytes per Read (0: no limit)
	CbErr     string    `json:"callback_error,omitempty"`             // which error the failing callback returns: "" (a private one), skipdir, skipall, eof, wrapped-skipdir
	RawTgt    bool      `json:"raw_target,omitempty"`                 // the target directory is handed over as spelled (trailing slash, ./, x/../x …), not cleaned
	NoOpts    bool      `json:"no_options,omitempty"`                 // the call is made without any option (the format is the default one)
	Prior     string    `json:"prior_call,omitempty"`                 // an option-less call made in the same process just before: "verify" (read-only; its verdict is not compared)
	StrayLast bool      `json:"stray_option_after_dry_run,omitempty"` // the stray encoding option stands after WithDryRun in the option list (otherwise before it)
}

// reader of the case's document
func (c Case) reader() io.Reader {
	return &faultReader{data: c.doc(), fail: c.Fail, chunk: c.Chunk}
}

func (c Case) targetIn(jail string) string {
	if c.RawTgt {
		return jail + "/" + c.Target
	}
	return filepath.Join(jail, c.Target)
}

// cbError: the error a failing callback returns – whatever it is, the walk ends and returns it unchanged
func cbError(c Case) error {
	switch c.CbErr {
	case "skipdir":
		return fs.SkipDir
	case "skipall":
		return fs.SkipAll
	case "eof":
		return io.EOF
	case "wrapped-skipdir":
		return fmt.Errorf("stop here: %w", fs.SkipDir)
	case "canceled":
		return context.Canceled
	}
	return errCallback
}

// classifyCb: the callback's own error, whatever value it is, counts as "callback" when it comes back unchanged
func classifyCb(c Case, err error) string {
	if c.CbErr != "" && c.FailAt >= 0 && err != nil && err.Error() == cbError(c).Error() {
		return "callback"
	}
	if c.CbErr != "" && c.FailAt >= 0 && err == nil {
		return "nil"
	}
	return classify(err)
}

// sameCbError: the walk returned exactly the error the callback returned
func sameCbError(c Case, err error, realv string) []Diff {
	if c.CbErr == "" || c.FailAt < 0 {
		return nil
	}
	if err == nil || err.Error() != cbError(c).Error() {
		return []Diff{{What: "the callback's error (" + c.CbErr + ") is not what the walk returned", Real: fmt.Sprint(err) + " " + realv, Model: cbError(c).Error()}}
	}
	return nil
}

// reenter: what a callback may do while a walk is in progress – use the library on other data
func reenter() {
	r := gtree.NewRoot("other")
	r.Add("x").Add("y")
	var b bytes.Buffer
	gtree.OutputFromRoot(&b, r)
	gtree.OutputFromMarkdown(&b, strings.NewReader("- p\n  - q\n"))
	gtree.WalkFromRoot(r, func(*gtree.WalkerNode) error { return nil })
}

// strayOpts: the encoding options belong to Output; Mkdir, Verify and Walk must behave the same with them.
func strayOpts(c Case) []gtree.Option {
	switch c.Stray {
	case "json":
		return []gtree.Option{gtree.WithEncodeJSON()}
	case "yaml":
		return []gtree.Option{gtree.WithEncodeYAML()}
	case "toml":
		return []gtree.Option{gtree.WithEncodeTOML()}
	}
	return nil
}

// walkOpts: the options of a walk case – none at all when the case says so (its format is then the default one)
func walkOpts(c Case) []gtree.Option {
	if c.NoOpts && c.Fmt == fmtDefault {
		return nil
	}
	return append(fmtOpts(c.Fmt), strayOpts(c)...)
}

// strayAll gives every fourth mkdir / verify / walk case a stray encoding option.
func strayAll(cs []Case) []Case {
	out := make([]Case, len(cs))
	copy(out, cs)
	for i := range out {
		if out[i].Doc != "" && out[i].Chunk == 0 && i%5 == 2 {
			out[i].Chunk = 1 + i%3 // a reader that delivers one to three bytes at a time
		}
		switch out[i].Kind {
		case "mkdir", "verify", "walk", "rootwalk", "rootiter":
			if out[i].Stray == "" && i%4 == 3 {
				out[i].Stray = []string{"json", "yaml", "toml"}[(i/4)%3]
			}
		}
	}
	return out
}

// dryOpts: the dry-run option together with the case's stray encoding option, in the order the case asks for –
// an encoding option says nothing about Mkdir, wherever it stands: dry run stays dry run
func dryOpts(c Case, base []gtree.Option) []gtree.Option {
	if c.StrayLast {
		return append(append(base, gtree.WithDryRun()), strayOpts(c)...)
	}
	return append(append(base, strayOpts(c)...), gtree.WithDryRun())
}

func newCase(kind string) Case {
	return Case{Kind: kind, Fmt: fmtDefault, WFail: -1, FailAt: -1, Break: -1}
}

func (c Case) doc() []byte { return unhx(c.Doc) }

func parseTreeEnc(s string) *Tree {
	pos := 0
	var rec func() *Tree
	rec = func() *Tree {
		if pos >= len(s) || s[pos] != '(' {
			panic("bad tree " + s)
		}
		pos++
		st := pos
		for pos < len(s) && s[pos] != '(' && s[pos] != ')' {
			pos++
		}
		t := &Tree{Name: string(unhx(s[st:pos]))}
		for pos < len(s) && s[pos] == '(' {
			t.Kids = append(t.Kids, rec())
		}
		pos++ // ')'
		return t
	}
	return rec()
}

// runCase runs the real code and the model on the case and returns the differences.
func runCase(m *Model, c Case) []Diff {
	d, _ := runCaseR(m, c)
	return d
}

// runCaseR also returns the real code's canonical result.
func runCaseR(m *Model, c Case) (d []Diff, r string) {
	orig := c.Exts
	c.Exts = ownExts(orig)
	// a panic inside the library on this case (in the calling goroutine) is a failing input, not a crash of the
	// harness: every operation returns, for every input. The stack names the frames of /repo it went through.
	defer func() {
		if p := recover(); p != nil {
			st := string(debug.Stack())
			if !strings.Contains(st, "github.com/ddddddO/gtree.") && !strings.Contains(st, "\t/repo/") {
				panic(p) // not in the library: a defect of the harness, which must not be reported as a violation
			}
			if len(st) > 3000 {
				st = st[:3000]
			}
			d = []Diff{{What: "the library panicked on this case", Real: fmt.Sprint(p) + "\n" + st, Model: "the call returns (a value or an error) on every input"}}
			r = "panic"
		}
	}()
	d, r = runCaseR1(m, c)
	return append(d, extsDiff(orig, c.Exts)...), r
}

func runCaseR1(m *Model, c Case) ([]Diff, string) {
	switch c.Kind {
	case "out":
		opts := fmtOpts(c.Fmt)
		switch c.Mode {
		case "batch-text":
			opts = append(opts, gtree.WithNoUseIterOfSimpleOutput())
		case "iter-dry":
			opts = append(opts, gtree.WithDryRun(), gtree.WithFileExtensions(c.Exts))
		}
		if c.Massive {
			// only used for single-root documents without faults, where the massive result is determined
			opts = append(opts, gtree.WithMassive(context.Background()))
		}
		w := &faultWriter{failAt: c.WFail, short: c.Short}
		var err error
		if c.Alias {
			err = gtree.Output(w, c.reader(), opts...)
		} else {
			err = gtree.OutputFromMarkdown(w, c.reader(), opts...)
		}
		realv := "w=" + hx(w.buf.Bytes()) + " e=" + classify(err)
		modelv := m.Ask("out " + c.Mode + " " + c.Fmt.enc() + " " + hxList(c.Exts) + " " + b01(c.Fail) + " " + optN(c.WFail) + " " + optN0(c.Short) + " " + c.Doc0())
		return cmp("output", realv, modelv), realv
	case "outf":
		var buf bytes.Buffer
		fo := []gtree.Option{encodeOpt(c.Format)}
		if c.Mode == "batch" {
			fo = append(fo, gtree.WithNoUseIterOfSimpleOutput())
		}
		err := gtree.OutputFromMarkdown(&buf, c.reader(), fo...)
		nodes, derr := decodeFormatted(c.Format, buf.Bytes())
		realv := "f=" + showFNodes(nodes) + " e=" + classify(err)
		if derr != nil {
			realv = "decode-error:" + derr.Error() + " raw=" + hx(buf.Bytes())
		}
		modelv := m.Ask("outf " + b01(c.Fail) + " " + c.Doc0())
		if c.ErrOnly && derr == nil {
			return cmp("formatted:"+c.Format+" (error only)", realv[strings.LastIndex(realv, " e="):], modelv[strings.LastIndex(modelv, " e="):]), realv
		}
		d := cmp("formatted:"+c.Format, realv, modelv)
		if c.Format == "json" && err == nil && derr == nil {
			d = append(d, jsonBytes(m, "outjson "+b01(c.Fail)+" "+c.Doc0(), buf.Bytes())...)
		}
		return d, realv
	case "rootf":
		t := parseTreeEnc(c.Tree)
		var buf bytes.Buffer
		var err error
		if c.Alias {
			err = gtree.OutputProgrammably(&buf, buildRoot(t), encodeOpt(c.Format))
		} else {
			err = gtree.OutputFromRoot(&buf, buildRoot(t), encodeOpt(c.Format))
		}
		nodes, derr := decodeFormatted(c.Format, buf.Bytes())
		realv := "f=" + showFNodes(nodes) + " e=" + classify(err)
		if derr != nil {
			realv = "decode-error:" + derr.Error() + " raw=" + hx(buf.Bytes())
		}
		modelv := m.Ask("rootf " + addMirror(t).Enc())
		d := cmp("formatted-root:"+c.Format, realv, modelv)
		if c.Format == "json" && err == nil && derr == nil {
			d = append(d, jsonBytes(m, "rootjson "+addMirror(t).Enc(), buf.Bytes())...)
		}
		return d, realv
	case "walk":
		var vs []string
		var kept []*gtree.WalkerNode
		k := 0
		cb := func(wn *gtree.WalkerNode) error {
			vs = append(vs, showVisit(wn))
			kept = append(kept, wn)
			k++
			if c.Busy {
				reenter()
			}
			if c.FailAt >= 0 && k-1 == c.FailAt {
				return cbError(c)
			}
			return nil
		}
		var err error
		wopts := walkOpts(c)
		if c.Prior == "verify" {
			_ = gtree.VerifyFromMarkdown(bytes.NewReader(c.doc()))
		}
		if c.Alias {
			err = gtree.Walk(c.reader(), cb, wopts...)
		} else {
			err = gtree.WalkFromMarkdown(c.reader(), cb, wopts...)
		}
		realv := "v=" + showVisits(vs) + " e=" + classifyCb(c, err)
		if d := keptVisits(kept, vs); d != nil {
			return d, realv
		}
		if err == nil && len(c.Texts) > 0 {
			// direct evaluation of C02's "no silent loss" on the real code
			have := map[string]bool{}
			for _, v := range vs {
				have[strings.SplitN(v, "|", 2)[0]] = true
			}
			for _, t := range c.Texts {
				if !have[hxs(t)] {
					return []Diff{{What: "silent loss: row text " + t + " accepted (nil) but not among the visited nodes", Real: realv, Model: "every non-blank row is represented"}}, realv
				}
			}
		}
		modelv := m.Ask("walk " + c.Fmt.enc() + " " + b01(c.Fail) + " " + optN(c.FailAt) + " " + c.Doc0())
		return cmp("walk", realv, modelv), realv
	case "rootout":
		t := parseTreeEnc(c.Tree)
		w := &faultWriter{failAt: c.WFail, short: c.Short}
		var err error
		if c.Alias {
			err = gtree.OutputProgrammably(w, buildRoot(t), fmtOpts(c.Fmt)...)
		} else {
			err = gtree.OutputFromRoot(w, buildRoot(t), fmtOpts(c.Fmt)...)
		}
		realv := "w=" + hx(w.buf.Bytes()) + " e=" + classify(err)
		modelv := m.Ask("rootout " + c.Fmt.enc() + " " + optN(c.WFail) + " " + optN0(c.Short) + " " + addMirror(t).Enc())
		return cmp("output-root", realv, modelv), realv
	case "rootwalk":
		t := parseTreeEnc(c.Tree)
		var vs []string
		var kept []*gtree.WalkerNode
		k := 0
		cb := func(wn *gtree.WalkerNode) error {
			vs = append(vs, showVisit(wn))
			kept = append(kept, wn)
			k++
			if c.Busy {
				reenter()
			}
			if c.FailAt >= 0 && k-1 == c.FailAt {
				return cbError(c)
			}
			return nil
		}
		var err error
		root := buildRoot(t)
		wopts := walkOpts(c)
		if c.Prior == "verify" {
			_ = gtree.VerifyFromRoot(buildRoot(t))
		}
		if c.Alias {
			err = gtree.WalkProgrammably(root, cb, wopts...)
		} else {
			err = gtree.WalkFromRoot(root, cb, wopts...)
		}
		realv := "v=" + showVisits(vs) + " e=" + classifyCb(c, err)
		modelv := m.Ask("rootwalk " + c.Fmt.enc() + " " + optN(c.FailAt) + " " + addMirror(t).Enc())
		d := append(cmp("walk-root", realv, modelv), keptVisits(kept, vs)...)
		// walking the same root again visits the same rendered tree (node facts are rebuilt, not appended to)
		vs, k, kept = nil, 0, nil
		err2 := gtree.WalkFromRoot(root, cb, wopts...)
		d = append(d, cmp("walk-root (second walk of the same root)", "v="+showVisits(vs)+" e="+classifyCb(c, err2), modelv)...)
		return d, realv
	case "rootiter":
		t := parseTreeEnc(c.Tree)
		var vs []string
		var ierr error
		io := append(fmtOpts(c.Fmt), strayOpts(c)...)
		if c.Massive {
			io = append(io, gtree.WithMassive(context.Background())) // ignored by the iterator form (it always walks in simple mode)
		}
		seq := gtree.WalkIterFromRoot(buildRoot(t), io...)
		if c.Alias {
			seq = gtree.WalkIterProgrammably(buildRoot(t), io...)
		}
		var kept []*gtree.WalkerNode
		for wn, err := range seq {
			if err != nil {
				ierr = err
				break
			}
			if c.Break >= 0 && len(vs) >= c.Break {
				break
			}
			vs = append(vs, showVisit(wn))
			kept = append(kept, wn)
			if c.Busy {
				// other trees being built in between must not matter
				gtree.NewRoot("elsewhere").Add("x").Add("y")
			}
		}
		// the items stay what they were when they were yielded
		for i, wn := range kept {
			if showVisit(wn) != vs[i] {
				return []Diff{{What: "an item yielded by the iterator changed after the loop moved on", Real: showVisit(wn), Model: vs[i]}}, ""
			}
		}
		// a consumer that breaks after k items has consumed k items (the (k+1)-th is pulled but dropped)
		realv := "v=" + showVisits(vs) + " e=" + classify(ierr)
		modelv := m.Ask("rootiter " + c.Fmt.enc() + " " + optN(c.Break) + " " + addMirror(t).Enc())
		return cmp("walkiter-root", realv, modelv), realv
	case "mkdir":
		return runMkdir(m, c)
	case "verify":
		return runVerify(m, c)
	}
	return []Diff{{What: "unknown kind " + c.Kind}}, ""
}

// keptVisits: the *WalkerNode values a callback retained still describe, after the walk has returned, the nodes
// they described when they were handed over
func keptVisits(kept []*gtree.WalkerNode, vs []string) []Diff {
	for i, wn := range kept {
		if i < len(vs) && showVisit(wn) != vs[i] {
			return []Diff{{What: "a *WalkerNode the callback kept describes another node after the walk has returned (visit " + fmtInt(i) + ")", Real: showVisit(wn), Model: vs[i]}}
		}
	}
	return nil
}

func optN0(n int) string {
	if n < 0 {
		return "0"
	}
	return optN(n)
}

// Doc0 is the hex document ("-" when empty).
func (c Case) Doc0() string {
	if c.Doc == "" {
		return "-"
	}
	return c.Doc
}

func runMkdir(m *Model, c Case) ([]Diff, string) {
	jail := newJail()
	defer os.RemoveAll(jail)
	populate(jail, c.Pre)
	before := snapshot(jail)
	target := c.targetIn(jail)
	extsBefore := append([]string{}, c.Exts...)
	cwdCheck := guardWorkDir(c)
	opts := append([]gtree.Option{gtree.WithTargetDir(target), gtree.WithFileExtensions(c.Exts)}, strayOpts(c)...)
	var written bytes.Buffer
	var err error
	call := func() {
		if c.FromRoot {
			root := buildRoot(parseTreeEnc(c.Tree))
			if c.Alias {
				err = gtree.MkdirProgrammably(root, opts...)
			} else {
				err = gtree.MkdirFromRoot(root, opts...)
			}
		} else {
			if c.Alias {
				err = gtree.Mkdir(c.reader(), opts...)
			} else {
				err = gtree.MkdirFromMarkdown(c.reader(), opts...)
			}
		}
	}
	if c.Dry {
		opts = dryOpts(c, []gtree.Option{gtree.WithTargetDir(target), gtree.WithFileExtensions(c.Exts)})
		func() {
			// released also when the call panics (C12 recovers the panic and reports it; the other cases must go on)
			colorOutMu.Lock()
			old := color.Output
			color.Output = &written
			defer func() {
				color.Output = old
				colorOutMu.Unlock()
			}()
			call()
		}()
	} else {
		call()
	}
	after := snapshot(jail)
	realv := "fs=" + strings.Join(after, ",") + " w=" + hx(written.Bytes()) + " e=" + classify(err)
	if strings.Join(extsBefore, "\x00") != strings.Join(c.Exts, "\x00") {
		return []Diff{{What: "the call modified the extension list it was given", Real: strings.Join(c.Exts, ","), Model: strings.Join(extsBefore, ",")}}, realv
	}
	var resp string
	if c.FromRoot {
		resp = m.Ask("mkdirroot " + fmtDefault.enc() + " " + hxList(c.Exts) + " " + hxs(target) + " " + b01(c.Dry) + " " + encFS(jail, before) + " " + addMirror(parseTreeEnc(c.Tree)).Enc())
	} else {
		resp = m.Ask("mkdir " + fmtDefault.enc() + " " + hxList(c.Exts) + " " + hxs(target) + " " + b01(c.Dry) + " " + encFS(jail, before) + " " + b01(c.Fail) + " " + c.Doc0())
	}
	modelv := resp
	if strings.HasPrefix(resp, "fs=") {
		parts := strings.SplitN(resp, " ", 2)
		modelv = "fs=" + stripAmbient(jail, strings.TrimPrefix(parts[0], "fs=")) + " " + parts[1]
	}
	return append(cmp("mkdir", realv, modelv), cwdCheck()...), realv
}

func runVerify(m *Model, c Case) ([]Diff, string) {
	jail := newJail()
	defer os.RemoveAll(jail)
	populate(jail, c.Pre)
	before := snapshot(jail)
	target := c.targetIn(jail)
	opts := append([]gtree.Option{gtree.WithTargetDir(target)}, strayOpts(c)...)
	if c.Massive {
		// single-root trees only: then the verdict and the lists of the massive mode are determined
		opts = append(opts, gtree.WithMassive(context.Background()))
	}
	if c.Strict {
		opts = append(opts, gtree.WithStrictVerify())
	}
	var err error
	if c.FromRoot {
		root := buildRoot(parseTreeEnc(c.Tree))
		if c.Alias {
			err = gtree.VerifyProgrammably(root, opts...)
		} else {
			err = gtree.VerifyFromRoot(root, opts...)
		}
	} else {
		if c.Alias {
			err = gtree.Verify(c.reader(), opts...)
		} else {
			err = gtree.VerifyFromMarkdown(c.reader(), opts...)
		}
	}
	after := snapshot(jail)
	var d []Diff
	if strings.Join(before, ",") != strings.Join(after, ",") {
		d = append(d, Diff{What: "verify changed the filesystem", Real: strings.Join(after, ","), Model: strings.Join(before, ",")})
	}
	realv := "e=" + classify(err)
	var modelv string
	if c.FromRoot {
		modelv = m.Ask("verifyroot " + hxs(target) + " " + b01(c.Strict) + " " + encFS(jail, before) + " " + addMirror(parseTreeEnc(c.Tree)).Enc())
	} else {
		modelv = m.Ask("verify " + hxs(target) + " " + b01(c.Strict) + " " + encFS(jail, before) + " " + b01(c.Fail) + " " + c.Doc0())
	}
	return append(d, cmp("verify", realv, modelv)...), realv
}

// jsonBytes compares the JSON text the real code printed with the model's (Gtree.Model.Json, the subject of
// the C04_json_* theorems), byte for byte. Names that are not valid UTF-8 are outside that model.
func jsonBytes(m *Model, ask string, real []byte) []Diff {
	mv := m.Ask(ask)
	if strings.HasPrefix(mv, "j=invalid-utf8") {
		return nil
	}
	d := cmp("json text", "j="+hx(real)+" e=nil", mv)
	if len(d) > 0 {
		// the bytes differ: does the model's JSON reader still read the real text back as the records the
		// model prints? (if so the difference is about the text only, and the property holds on this input)
		want := m.Ask("jsonread " + strings.TrimSuffix(strings.TrimPrefix(mv, "j="), " e=nil"))
		got := m.Ask("jsonread " + hx(real))
		if got != want {
			d[0].What = "json text, and the real text does not read back as the tree"
			d[0].Real += " reads as " + got
			d[0].Model += " reads as " + want
		}
	}
	return d
}
