package main

import (
	"bufio"
	"bytes"
	"context"
	"encoding/json"
	"errors"
	"fmt"
	"io"
	"io/fs"
	"os"
	"path/filepath"
	"sort"
	"strings"
	"sync"
	"syscall"

	"github.com/ddddddO/gtree"
	"github.com/fatih/color"
	toml "github.com/pelletier/go-toml/v2"
	"gopkg.in/yaml.v3"
)

var (
	errReader   = errors.New("verif: injected reader failure")
	errWriter   = errors.New("verif: injected writer failure")
	errCallback = errors.New("verif: injected callback failure")
)

func init() { color.NoColor = true }

// colorOutMu serialises calls that print to the package-level color.Output.
var colorOutMu sync.Mutex

// ---------- fault-injecting reader / writer ----------

type faultReader struct {
	data  []byte
	fail  bool
	chunk int
}

func (r *faultReader) Read(p []byte) (int, error) {
	if len(r.data) == 0 {
		if r.fail {
			return 0, errReader
		}
		return 0, io.EOF
	}
	n := len(p)
	if r.chunk > 0 && n > r.chunk {
		n = r.chunk
	}
	n = copy(p[:n], r.data)
	r.data = r.data[n:]
	return n, nil
}

// transientReader fails once, after `pre` has been delivered, and then goes on with `post`.
type transientReader struct {
	pre, post []byte
	failed    bool
}

func (r *transientReader) Read(p []byte) (int, error) {
	if len(r.pre) > 0 {
		n := copy(p, r.pre)
		r.pre = r.pre[n:]
		return n, nil
	}
	if !r.failed {
		r.failed = true
		return 0, errReader
	}
	if len(r.post) == 0 {
		return 0, io.EOF
	}
	n := copy(p, r.post)
	r.post = r.post[n:]
	return n, nil
}

func newReader(doc []byte, fail bool) io.Reader {
	return &faultReader{data: doc, fail: fail}
}

type faultWriter struct {
	mu     sync.Mutex
	buf    bytes.Buffer
	failAt int // index of the Write call that fails; <0 never
	short  int
	calls  int
	failed bool
	// for massive-mode cases: writes that arrive after the call has returned
	returned bool
	late     int
}

func (w *faultWriter) markReturned() (failed bool, out []byte) {
	w.mu.Lock()
	defer w.mu.Unlock()
	w.returned = true
	return w.failed, append([]byte{}, w.buf.Bytes()...)
}

func (w *faultWriter) lateWrites() int {
	w.mu.Lock()
	defer w.mu.Unlock()
	return w.late
}

func (w *faultWriter) Write(p []byte) (int, error) {
	w.mu.Lock()
	defer w.mu.Unlock()
	if w.returned {
		w.late++
		return len(p), nil
	}
	i := w.calls
	w.calls++
	if w.failAt >= 0 && i >= w.failAt {
		// the failing write and every later one fail (a broken pipe stays broken)
		n := 0
		if i == w.failAt {
			n = w.short
			if n > len(p) {
				n = len(p)
			}
			w.buf.Write(p[:n])
		}
		w.failed = true
		return n, errWriter
	}
	w.buf.Write(p)
	return len(p), nil
}

// ---------- error classification (same vocabulary as the model's showErr) ----------

func classify(err error) string {
	if err == nil {
		return "nil"
	}
	switch {
	case errors.Is(err, errReader):
		return "reader"
	case errors.Is(err, errWriter), errors.Is(err, io.ErrShortWrite):
		return "write"
	case errors.Is(err, errCallback):
		return "callback"
	case errors.Is(err, bufio.ErrTooLong):
		return "toolong"
	case errors.Is(err, gtree.ErrExistPath):
		return "exist"
	case errors.Is(err, gtree.ErrNilNode):
		return "nilnode"
	case errors.Is(err, gtree.ErrNotRoot):
		return "notroot"
	case errors.Is(err, context.Canceled), errors.Is(err, context.DeadlineExceeded):
		return "ctx"
	}
	var errno syscall.Errno
	if errors.As(err, &errno) {
		switch errno {
		case syscall.ENOTDIR:
			return "os:notdir"
		case syscall.ENAMETOOLONG:
			return "os:toolong"
		case syscall.EINVAL:
			return "os:invalid"
		case syscall.EISDIR:
			return "os:isdir"
		case syscall.ENOENT:
			return "os:notexist"
		}
		return "os:" + errno.Error()
	}
	msg := err.Error()
	switch {
	case msg == "empty text":
		return "emptytext"
	case msg == "nil stack":
		return "nilstack"
	case strings.HasPrefix(msg, "incorrect input format: "):
		return "format:" + hxs(strings.TrimPrefix(msg, "incorrect input format: "))
	case strings.HasPrefix(msg, "invalid node name: "):
		return "invalidname:" + hxs(strings.TrimPrefix(msg, "invalid node name: "))
	case strings.HasPrefix(msg, "invalid path: "):
		return "invalidpath:" + hxs(strings.TrimPrefix(msg, "invalid path: "))
	case strings.HasPrefix(msg, "Extra paths exist:") || strings.HasPrefix(msg, "Required paths does not exist:"):
		var extra, missing []string
		cur := &extra
		for _, l := range strings.Split(msg, "\n") {
			switch {
			case l == "Extra paths exist:":
				cur = &extra
			case l == "Required paths does not exist:":
				cur = &missing
			case strings.HasPrefix(l, "\t"):
				*cur = append(*cur, strings.TrimPrefix(l, "\t"))
			}
		}
		return "verify:" + sortedHex(extra) + ":" + sortedHex(missing)
	}
	if strings.Contains(msg, "invalid argument") {
		return "os:invalid"
	}
	return "other:" + msg
}

// errClass drops the payload: "format", "invalidname", ...
func errClass(s string) string {
	if i := strings.IndexByte(s, ':'); i >= 0 {
		return s[:i]
	}
	return s
}

// ---------- options ----------

func fmtOpts(f Fmt4) []gtree.Option {
	return []gtree.Option{
		gtree.WithBranchFormatLastNode(f[0], f[1]),
		gtree.WithBranchFormatIntermedialNode(f[2], f[3]),
	}
}

// ---------- visits ----------

func showVisit(wn *gtree.WalkerNode) string {
	return hxs(wn.Name()) + "|" + hxs(wn.Branch()) + "|" + fmt.Sprint(wn.Level()) + "|" + hxs(wn.Path()) + "|" + b01(wn.HasChild()) + "|" + hxs(wn.Row())
}
func showVisits(vs []string) string {
	if len(vs) == 0 {
		return "_"
	}
	return strings.Join(vs, ";")
}

// ---------- building a gtree tree from our Tree ----------

func buildRoot(t *Tree) *gtree.Node {
	root := gtree.NewRoot(t.Name)
	var rec func(n *gtree.Node, t *Tree)
	rec = func(n *gtree.Node, t *Tree) {
		for _, k := range t.Kids {
			c := n.Add(k.Name)
			rec(c, k)
		}
	}
	rec(root, t)
	return root
}

// addMirror mirrors what NewRoot/Add build from t (Add of an existing name returns the existing child).
func addMirror(t *Tree) *Tree {
	m := &Tree{Name: t.Name}
	var rec func(dst *Tree, src *Tree)
	rec = func(dst *Tree, src *Tree) {
		for _, k := range src.Kids {
			var c *Tree
			for _, e := range dst.Kids {
				if e.Name == k.Name {
					c = e
					break
				}
			}
			if c == nil {
				c = &Tree{Name: k.Name}
				dst.Kids = append(dst.Kids, c)
			}
			rec(c, k)
		}
	}
	rec(m, t)
	return m
}

// ---------- formatted trees ----------

type fnode struct {
	Value    string   `json:"value" yaml:"value" toml:"value"`
	Children []*fnode `json:"children" yaml:"children" toml:"children"`
}

func (n *fnode) enc(sb *strings.Builder) {
	sb.WriteByte('(')
	sb.WriteString(hxs(n.Value))
	for _, c := range n.Children {
		c.enc(sb)
	}
	sb.WriteByte(')')
}

func showFNodes(ns []*fnode) string {
	if len(ns) == 0 {
		return "_"
	}
	var sb strings.Builder
	for _, n := range ns {
		n.enc(&sb)
	}
	return sb.String()
}

// decodeFormatted decodes the real output with the standard decoder of the format.
func decodeFormatted(format string, out []byte) ([]*fnode, error) {
	var res []*fnode
	switch format {
	case "json":
		// one JSON value per line
		dec := json.NewDecoder(bytes.NewReader(out))
		dec.DisallowUnknownFields()
		for {
			var n fnode
			err := dec.Decode(&n)
			if err == io.EOF {
				break
			}
			if err != nil {
				return nil, err
			}
			res = append(res, &n)
		}
		// one value per line
		lines := bytes.Count(out, []byte("\n"))
		if lines != len(res) {
			return nil, fmt.Errorf("json: %d values on %d lines", len(res), lines)
		}
	case "yaml":
		dec := yaml.NewDecoder(bytes.NewReader(out))
		dec.KnownFields(true)
		for {
			var n fnode
			err := dec.Decode(&n)
			if err == io.EOF {
				break
			}
			if err != nil {
				return nil, err
			}
			res = append(res, &n)
		}
	case "toml":
		if len(out) == 0 {
			return nil, nil
		}
		var n fnode
		dec := toml.NewDecoder(bytes.NewReader(out))
		dec.DisallowUnknownFields()
		if err := dec.Decode(&n); err != nil {
			return nil, err
		}
		res = append(res, &n)
	}
	return res, nil
}

func encodeOpt(format string) gtree.Option {
	switch format {
	case "json":
		return gtree.WithEncodeJSON()
	case "yaml":
		return gtree.WithEncodeYAML()
	case "toml":
		return gtree.WithEncodeTOML()
	}
	return nil
}

// ---------- file-system jail ----------

var scratchRoot string

func scratch() string {
	if scratchRoot == "" {
		d, err := os.MkdirTemp("", "vj")
		if err != nil {
			panic(err)
		}
		scratchRoot = d
	}
	return scratchRoot
}

var jailSeq struct {
	sync.Mutex
	n int
}

func newJail() string {
	jailSeq.Lock()
	jailSeq.n++
	n := jailSeq.n
	jailSeq.Unlock()
	d := filepath.Join(scratch(), fmt.Sprint(n))
	if err := os.MkdirAll(d, 0o755); err != nil {
		panic(err)
	}
	return d
}

type FSEntry struct {
	Path string `json:"path"` // relative to the jail
	Kind string `json:"kind"` // "d" or "f<size>"
}

// populate creates the entries (relative paths) inside the jail.
func populate(jail string, entries []FSEntry) {
	for _, e := range entries {
		p := filepath.Join(jail, e.Path)
		if e.Kind == "d" {
			os.MkdirAll(p, 0o755)
		} else if strings.HasPrefix(e.Kind, "l:") {
			os.MkdirAll(filepath.Dir(p), 0o755)
			os.Symlink(filepath.Join(jail, strings.TrimPrefix(e.Kind, "l:")), p)
		} else {
			os.MkdirAll(filepath.Dir(p), 0o755)
			var size int
			fmt.Sscanf(e.Kind, "f%d", &size)
			os.WriteFile(p, bytes.Repeat([]byte("x"), size), 0o644)
		}
	}
}

// snapshot lists everything inside the jail as model FS entries with absolute paths.
func snapshot(jail string) []string {
	var out []string
	filepath.WalkDir(jail, func(p string, d fs.DirEntry, err error) error {
		if err != nil || p == jail {
			return nil
		}
		if d.IsDir() {
			out = append(out, hxs(p)+":d")
		} else if d.Type()&fs.ModeSymlink != 0 {
			out = append(out, hxs(p)+":l") // a link's size is the length of its target path, which names the jail
		} else {
			fi, _ := d.Info()
			var sz int64
			if fi != nil {
				sz = fi.Size()
			}
			out = append(out, hxs(p)+fmt.Sprintf(":f%d", sz))
		}
		return nil
	})
	sort.Strings(out)
	return out
}

// ambient: the jail directory and its ancestors, which the model must know as directories
func ambient(jail string) []string {
	var out []string
	p := jail
	for p != "/" && p != "." {
		out = append(out, hxs(p)+":d")
		p = filepath.Dir(p)
	}
	return out
}

func encFS(jail string, snap []string) string {
	all := append(ambient(jail), snap...)
	sort.Strings(all)
	return strings.Join(all, ",")
}

// stripAmbient removes the ambient entries from the model's resulting FS listing.
func stripAmbient(jail string, modelFS string) string {
	if modelFS == "_" {
		return ""
	}
	amb := map[string]bool{}
	for _, a := range ambient(jail) {
		amb[a] = true
	}
	var out []string
	for _, e := range strings.Split(modelFS, ",") {
		if !amb[e] {
			out = append(out, e)
		}
	}
	sort.Strings(out)
	return strings.Join(out, ",")
}

// color.Output accessors (the dry-run report of Mkdir goes to this package-level writer)
func colorOutput() io.Writer     { return color.Output }
func setColorOutput(w io.Writer) { color.Output = w }

// otherUses: earlier and concurrent uses of the library that must not matter to anybody else's result –
// every entry point once, simple and massive, real and dry, on valid input in a private jail.
// Called before every suite and between cases (state that a call leaves behind in the package would show).
func otherUses() {
	jail := newJail()
	defer os.RemoveAll(jail)
	doc := []byte("- w\n    - x.go\n    - y\n        - z\n- v\n")
	t := filepath.Join(jail, "t")
	var b lockedBuf
	for _, massive := range []bool{false, true} {
		var o []gtree.Option
		if massive {
			o = append(o, gtree.WithMassive(context.Background()))
		}
		tt := t + ifs(massive, "m", "s")
		gtree.MkdirFromMarkdown(bytes.NewReader(doc), append(o, gtree.WithTargetDir(tt), gtree.WithFileExtensions([]string{".go"}))...)
		gtree.VerifyFromMarkdown(bytes.NewReader(doc), append(o, gtree.WithTargetDir(tt), gtree.WithStrictVerify())...)
		gtree.OutputFromMarkdown(&b, bytes.NewReader(doc), o...)
		gtree.OutputFromMarkdown(&b, bytes.NewReader(doc), append(o, gtree.WithEncodeYAML())...)
		gtree.WalkFromMarkdown(bytes.NewReader(doc), func(*gtree.WalkerNode) error { return nil }, o...)
		r := gtree.NewRoot("w")
		r.Add("x.go")
		r.Add("y").Add("z")
		gtree.MkdirFromRoot(r, append(o, gtree.WithTargetDir(tt+"r"), gtree.WithFileExtensions([]string{".go"}))...)
		gtree.VerifyFromRoot(r, append(o, gtree.WithTargetDir(tt+"r"))...)
		gtree.OutputFromRoot(&b, r, o...)
		gtree.OutputFromRoot(&b, r, append(o, gtree.WithEncodeJSON())...)
	}
}
