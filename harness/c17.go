package main

import (
	"bufio"
	"encoding/json"
	"fmt"
	"os"
	"os/exec"
	"path/filepath"
	"strings"
	"unicode/utf8"
)

// C17: the tinywasm build renders the same trees as the default build. One driver program
// (wasmdriver) is compiled twice; both are run on the same cases, compared with each other
// (the relation itself, on the real code) and the tinywasm one with the Lean model of the wasm variant.

func init() {
	props["c17"] = runC17
	replayers["wasm"] = func(m *Model, raw json.RawMessage) []Diff {
		var c wasmCase
		json.Unmarshal(raw, &c)
		d1, d2 := buildWasmDrivers()
		defer d1.Close()
		defer d2.Close()
		return runWasm(m, d1, d2, c)
	}
}

type wasmCase struct {
	Kind string   `json:"kind"`
	Mode string   `json:"mode"` // text | json | dry
	Fmt  Fmt4     `json:"fmt"`
	Exts []string `json:"exts,omitempty"`
	Doc  string   `json:"doc_hex"`
	Text string   `json:"doc_text,omitempty"`
}

type proc struct {
	cmd *exec.Cmd
	in  *bufio.Writer
	out *bufio.Reader
}

func (p *proc) Ask(line string) string {
	p.in.WriteString(line + "\n")
	p.in.Flush()
	r, err := p.out.ReadString('\n')
	if err != nil {
		return "driver-died:" + err.Error()
	}
	return strings.TrimRight(r, "\n")
}
func (p *proc) Close() { p.cmd.Process.Kill(); p.cmd.Wait() }

func startProc(path string) *proc {
	cmd := exec.Command(path)
	in, _ := cmd.StdinPipe()
	out, _ := cmd.StdoutPipe()
	cmd.Stderr = os.Stderr
	if err := cmd.Start(); err != nil {
		panic(err)
	}
	return &proc{cmd, bufio.NewWriter(in), bufio.NewReaderSize(out, 1<<20)}
}

func harnessDir() string {
	if d := os.Getenv("VERIF_HARNESS_DIR"); d != "" {
		return d
	}
	return "/verif/harness"
}

func buildWasmDrivers() (*proc, *proc) {
	dir := scratch()
	d1, d2 := filepath.Join(dir, "driver_default"), filepath.Join(dir, "driver_tinywasm")
	for _, b := range []struct{ out, tags string }{{d1, "verif"}, {d2, "verif tinywasm"}} {
		if _, err := os.Stat(b.out); err == nil {
			continue
		}
		cmd := exec.Command("go", "build", "-tags", b.tags, "-o", b.out, "./wasmdriver")
		cmd.Dir = harnessDir()
		if out, err := cmd.CombinedOutput(); err != nil {
			fmt.Fprintf(os.Stderr, "building wasmdriver (%s): %v\n%s", b.tags, err, out)
			os.Exit(3)
		}
	}
	return startProc(d1), startProc(d2)
}

func runWasm(m *Model, d1, d2 *proc, c wasmCase) []Diff {
	line := c.Mode + " " + c.Fmt.enc() + " " + hxList(c.Exts) + " " + ifs(c.Doc == "", "-", c.Doc)
	r1, r2 := d1.Ask(line), d2.Ask(line)
	var diffs []Diff
	e1, e2 := r1[strings.LastIndex(r1, "e=")+2:], r2[strings.LastIndex(r2, "e=")+2:]
	if (e1 == "nil") != (e2 == "nil") {
		diffs = append(diffs, Diff{What: "accept/reject decision differs between the builds", Real: "tinywasm: " + r2, Model: "default: " + r1})
	} else if e1 == "nil" && r1 != r2 {
		diffs = append(diffs, Diff{What: "accepted input renders differently in the tinywasm build", Real: "tinywasm: " + r2, Model: "default: " + r1})
	}
	var modelv string
	if c.Mode == "json" {
		// compare decoded structure
		nodes, derr := decodeFormatted("json", unhx(strings.TrimPrefix(strings.SplitN(r2, " ", 2)[0], "w=")))
		realv := "f=" + showFNodes(nodes) + " e=" + e2
		if derr != nil {
			realv = "decode-error"
		}
		if !utf8.Valid(unhx(c.Doc)) {
			return diffs // encoding/json substitutes U+FFFD for invalid UTF-8 (library behaviour)
		}
		modelv = m.Ask("wasm json " + c.Fmt.enc() + " " + hxList(c.Exts) + " 0 " + ifs(c.Doc == "", "-", c.Doc))
		diffs = append(diffs, cmp("tinywasm build vs wasm model (json)", realv, modelv)...)
	} else {
		modelv = m.Ask("wasm " + c.Mode + " " + c.Fmt.enc() + " " + hxList(c.Exts) + " 0 " + ifs(c.Doc == "", "-", c.Doc))
		diffs = append(diffs, cmp("tinywasm build vs wasm model", r2, modelv)...)
	}
	return diffs
}

func runC17(ctx *Ctx) *Report {
	rep := NewReport("C17")
	n := 5
	if ctx.Thorough {
		n = 6
	}
	var cases []wasmCase
	modes := []string{"text", "text", "json", "dry"}
	forests := forestsUpTo(n, []string{"a", "b.go"})
	for i, f := range forests {
		doc := spell(f, coveringSpellings()[i%len(coveringSpellings())])
		c := wasmCase{Kind: "wasm", Mode: modes[i%4], Fmt: allFormats()[i%len(allFormats())], Exts: extLists[i%len(extLists)], Doc: hx(doc), Text: docText(doc)}
		cases = append(cases, c)
	}
	// malformed stream (same injections as C02) and hostile names
	small := forestsUpTo(3, []string{"a", "b"})
	for fi, f := range small {
		doc := string(spell(f, plainSpelling))
		rows := strings.Split(strings.TrimSuffix(doc, "\n"), "\n")
		for i, r := range rows {
			indent := r[:len(r)-len(strings.TrimLeft(r, " \t"))]
			for ji, inj := range injections {
				bad := inj.row(indent, "  ")
				repl := append(append([]string{}, rows[:i]...), bad)
				repl = append(repl, rows[i+1:]...)
				d := strings.Join(repl, "\n") + "\n"
				cases = append(cases, wasmCase{Kind: "wasm", Mode: modes[(fi+i+ji)%4], Fmt: fmtDefault, Exts: []string{".go"}, Doc: hxs(d), Text: docText([]byte(d))})
			}
		}
	}
	for _, d := range []string{"", "\n", "\n\n", "  \n", "  - x\n- a\n", "- a\n  - ..\n", "- a\n  - b/c\n", "- \xff\n", "- a\n      - deep\n"} {
		for _, mode := range []string{"text", "json", "dry"} {
			cases = append(cases, wasmCase{Kind: "wasm", Mode: mode, Fmt: fmtDefault, Doc: hxs(d), Text: docText([]byte(d))})
		}
	}
	// a malformed row under a later root, after roots of every depth
	for _, d := range []string{"- r1\n  - a\n- r2\n    - x\n", "- r1\n  - a\n    - b\n- r2\n      - x\n", "- r1\n  - a\n    - b\n- r2\n    - x\n", "# h1\n- a\n  - b\n# h2\n    - x\n",
		"- r1\n- r2\n  - a\n- r3\n    - x\n", "- r1\n  - a\n- r2\n- r3\n    - x\n", "- r1\n  - a\n    - b\n      - c\n- r2\n        - x\n"} {
		for _, mode := range []string{"text", "json", "dry"} {
			cases = append(cases, wasmCase{Kind: "wasm", Mode: mode, Fmt: fmtDefault, Doc: hxs(d), Text: docText([]byte(d))})
		}
	}
	// deep trees under branch strings with an empty or self-similar connector
	{
		deep := []*Tree{{Name: "r", Kids: []*Tree{{Name: "a", Kids: []*Tree{{Name: "b", Kids: []*Tree{{Name: "c", Kids: []*Tree{{Name: "d", Kids: []*Tree{{Name: "e"}, {Name: "e2"}}}, {Name: "d2"}}}, {Name: "c2"}}}, {Name: "b2", Kids: []*Tree{{Name: "x", Kids: []*Tree{{Name: "y", Kids: []*Tree{{Name: "z"}}}}}}}}}, {Name: "a2"}}}}
		doc := spell(deep, plainSpelling)
		for _, fm := range []Fmt4{{"", "  ", "", "  "}, {"+", "+ ", "+", "+ "}, {"", "", "x", "y"}, {"ab", "abab", "ab", "ab"}, {" ", "  ", " ", "   "}, {"|", "||", "|", "| |"}, fmtEmpty, fmtPercent, fmtLookalike} {
			for _, mode := range []string{"text", "dry"} {
				cases = append(cases, wasmCase{Kind: "wasm", Mode: mode, Fmt: fm, Exts: []string{".go"}, Doc: hx(doc), Text: docText(doc)})
			}
		}
	}
	for bi, name := range []string{"deep", "wide", "many-roots", "long-names"} {
		doc := spell(bigShapes()[name], coveringSpellings()[bi])
		for mi, mode := range []string{"text", "json", "dry"} {
			cases = append(cases, wasmCase{Kind: "wasm", Mode: mode, Fmt: allFormats()[(bi+mi)%len(allFormats())], Exts: []string{".go"}, Doc: hx(doc), Text: "<" + name + ">"})
		}
	}
	// rows around bufio's 64 KiB token limit: both variants must make the same decision
	for _, n := range []int{65535, 65536, 70000, 200000} {
		d := "- " + strings.Repeat("x", n-2) + "\n- b\n"
		for _, mode := range []string{"text", "json", "dry"} {
			cases = append(cases, wasmCase{Kind: "wasm", Mode: mode, Fmt: fmtDefault, Doc: hxs(d), Text: fmt.Sprintf("<row of %d bytes>", n)})
		}
	}
	nr := 500
	if ctx.Thorough {
		nr = 20000
	}
	for k := 0; k < nr; k++ {
		f := randForest(ctx.Rng, 1+ctx.Rng.Intn(30), []string{"plain", "bullets", "blanks", "unicode", "quotes", "path"}, 3, rep.Dist)
		sp := randSpelling(ctx.Rng)
		if !representable(f, sp) {
			sp.Sharp = false
		}
		if !representable(f, sp) {
			continue
		}
		doc := spell(f, sp)
		cases = append(cases, wasmCase{Kind: "wasm", Mode: modes[k%4], Fmt: allFormats()[k%len(allFormats())], Exts: extLists[k%len(extLists)], Doc: hx(doc), Text: docText(doc)})
	}
	// a few worker triples
	workers := ctx.Workers / 2
	if workers < 1 {
		workers = 1
	}
	ch := make(chan wasmCase, 64)
	done := make(chan bool)
	for w := 0; w < workers; w++ {
		go func() {
			m := NewModel()
			d1, d2 := buildWasmDriversOnce()
			defer m.Close()
			defer d1.Close()
			defer d2.Close()
			for c := range ch {
				diffs := runWasm(m, d1, d2, c)
				b, _ := json.Marshal(c)
				rep.Record(c, string(b), len(c.Doc) > 20, diffs)
				rep.Count("mode:" + c.Mode)
			}
			done <- true
		}()
	}
	for _, c := range cases {
		ch <- c
	}
	close(ch)
	for w := 0; w < workers; w++ {
		<-done
	}
	return rep
}

var buildOnce = make(chan struct{}, 1)

func buildWasmDriversOnce() (*proc, *proc) {
	buildOnce <- struct{}{}
	defer func() { <-buildOnce }()
	return buildWasmDrivers()
}
