package main

import (
	"bytes"
	"context"
	"encoding/json"
	"errors"
	"fmt"
	"io"
	"os"
	"strings"
	"sync"
	"syscall"
	"unicode/utf8"

	"github.com/ddddddO/gtree"
)

// C14: reader and writer failures are reported, never swallowed.

func init() {
	props["c14"] = runC14
	replayers["massive-reader"] = func(m *Model, raw json.RawMessage) []Diff {
		var c Case
		json.Unmarshal(raw, &c)
		return runMassiveReader(c)
	}
	replayers["wfault"] = func(m *Model, raw json.RawMessage) []Diff {
		var c Case
		json.Unmarshal(raw, &c)
		return runWFault(c)
	}
	replayers["wfault-transient"] = func(m *Model, raw json.RawMessage) []Diff {
		var c Case
		json.Unmarshal(raw, &c)
		d, _ := runWTransient(c)
		return d
	}
	replayers["fault-value"] = func(m *Model, raw json.RawMessage) []Diff {
		var c faultValueCase
		json.Unmarshal(raw, &c)
		return runFaultValue(c)
	}
}

// runWFault: the property evaluated directly on the real code, for every output mode:
// with a writer failing at Write call k of the N the fault-free run makes, the call must not return
// nil (and if it returned nil, every byte must have been accepted).
func runWFault(c Case) []Diff {
	call := func(w *faultWriter) error {
		var opts []gtree.Option
		switch c.Mode {
		case "text":
			opts = fmtOpts(c.Fmt)
		case "batch-text":
			opts = append(fmtOpts(c.Fmt), gtree.WithNoUseIterOfSimpleOutput())
		case "dry":
			opts = []gtree.Option{gtree.WithDryRun(), gtree.WithFileExtensions(c.Exts)}
		case "json", "yaml", "toml":
			opts = []gtree.Option{encodeOpt(c.Mode)}
		}
		if c.Massive {
			opts = append(opts, gtree.WithMassive(context.Background()))
		}
		if c.FromRoot {
			return gtree.OutputFromRoot(w, buildRoot(parseTreeEnc(c.Tree)), opts...)
		}
		return gtree.OutputFromMarkdown(w, bytes.NewReader(c.doc()), opts...)
	}
	free := &faultWriter{failAt: -1}
	if err := call(free); err != nil {
		return []Diff{{What: "fault-free run failed", Real: classify(err), Model: "nil"}}
	}
	_, full := free.markReturned()
	var d []Diff
	if c.WFail >= free.calls {
		return nil
	}
	w := &faultWriter{failAt: c.WFail, short: c.Short}
	err := call(w)
	w.markReturned()
	if err == nil {
		d = append(d, Diff{What: "writer failed at write " + fmtInt(c.WFail) + " of " + fmtInt(free.calls) + " but the call returned nil", Real: "nil; accepted fewer than the " + fmtInt(len(full)) + " bytes of the output", Model: "non-nil error"})
	} else if !errors.Is(err, errWriter) {
		// still fine for the property (non-nil), but record unexpected classes
		if classify(err) == "nil" {
			d = append(d, Diff{What: "unexpected", Real: classify(err)})
		}
	}
	return d
}

// runMassiveReader: massive mode with a reader that fails after the given prefix of a well-formed document.
func runMassiveReader(c Case) []Diff {
	opts := []gtree.Option{gtree.WithMassive(context.Background())}
	var err error
	w := &faultWriter{failAt: -1}
	r := &faultReader{data: c.doc(), fail: true, chunk: 5}
	switch c.Mode {
	case "text":
		err = gtree.OutputFromMarkdown(w, r, opts...)
	case "json":
		err = gtree.OutputFromMarkdown(w, r, append(opts, gtree.WithEncodeJSON())...)
	case "dry":
		err = gtree.OutputFromMarkdown(w, r, append(opts, gtree.WithDryRun())...)
	case "walk":
		err = gtree.WalkFromMarkdown(r, func(*gtree.WalkerNode) error { return nil }, opts...)
	}
	w.markReturned()
	if !errors.Is(err, errReader) {
		return []Diff{{What: "massive mode: the reader failed but the call did not return the reader's error", Real: classify(err), Model: "reader"}}
	}
	return nil
}

func runC14(ctx *Ctx) *Report {
	rep := NewReport("C14")
	n := 4
	if ctx.Thorough {
		n = 5
	}
	forests := forestsUpTo(n, []string{"a", "b.go"})
	// --- reader failure after every byte offset, every simple entry point, vs the model
	var cases []Case
	kinds := []string{"iter-text", "batch-text", "iter-dry", "json", "yaml", "walk", "mkdir", "verify"}
	ki := 0
	for fi, f := range forests {
		sp := coveringSpellings()[fi%len(coveringSpellings())]
		doc := spell(f, sp)
		stepK := 1
		if !ctx.Thorough && len(doc) > 12 {
			stepK = 2
		}
		for k := 0; k <= len(doc); k += stepK {
			kind := kinds[ki%len(kinds)]
			ki++
			var c Case
			switch kind {
			case "iter-text", "batch-text", "iter-dry":
				c = newCase("out")
				c.Mode = kind
			case "json", "yaml":
				c = newCase("outf")
				c.Format = kind
			case "walk":
				c = newCase("walk")
			case "mkdir":
				c = newCase("mkdir")
				c.Target = "t"
			case "verify":
				c = newCase("verify")
				c.Target = "t"
			}
			c.Doc = hx(doc[:k])
			c.DocText = docText(doc[:k])
			c.Fail = true
			c.Note = "reader fails after " + fmtInt(k) + " of " + fmtInt(len(doc)) + " bytes"
			cases = append(cases, c)
		}
	}
	// seeded stream: random forests, names and notations, a reader that fails at a random offset
	for k := 0; k < pick(ctx.Thorough, 8000, 800); k++ {
		f := randForest(ctx.Rng, 1+ctx.Rng.Intn(10), []string{"plain", "plain", "unicode", "quotes", "blanks", "bullets"}, 3, rep.Dist)
		sp := randSpelling(ctx.Rng)
		doc := spell(f, sp)
		wellFormed := representable(f, sp)
		at := ctx.Rng.Intn(len(doc) + 1)
		kind := kinds[ctx.Rng.Intn(len(kinds))]
		var c Case
		switch kind {
		case "iter-text", "batch-text", "iter-dry":
			c = newCase("out")
			c.Mode = kind
			c.Exts = extLists[ctx.Rng.Intn(len(extLists))]
		case "json", "yaml":
			c = newCase("outf")
			c.Format = kind
			if !utf8.Valid(doc[:at]) {
				c.Format = "yaml"
				c.ErrOnly = true
			}
		case "walk":
			c = newCase("walk")
		case "mkdir":
			c = newCase("mkdir")
			c.Target = "t"
		case "verify":
			c = newCase("verify")
			c.Target = "t"
		}
		c.Doc, c.DocText, c.Fail = hx(doc[:at]), docText(doc[:at]), true
		c.Chunk = []int{0, 1, 3, 7}[ctx.Rng.Intn(4)]
		c.Note = "seeded: reader fails after " + fmtInt(at) + " of " + fmtInt(len(doc)) + " bytes"
		if !wellFormed {
			c.Note = "seeded, document not well-formed: the model decides which error comes first"
		}
		cases = append(cases, c)
	}
	parallel(cases, ctx.Workers, func(m *Model, c Case) {
		diffs, realv := runCaseR(m, c)
		// direct: a well-formed document cut short by a failing reader must report the reader's error
		if resultClass(realv) != "reader" && !strings.Contains(c.Note, "not well-formed") {
			diffs = append(diffs, Diff{What: "the reader failed but the call did not return the reader's error", Real: realv, Model: "e=reader"})
		}
		rep.Record(c, caseKey(c), len(c.Doc) > 8, diffs)
		rep.Count("reader:" + c.Kind + ifs(c.Mode != "", "/"+c.Mode, "") + ifs(c.Format != "", "/"+c.Format, ""))
	})
	// (writer faults are not compared with the model's chunk indexes: how the code batches its writes is
	// not pinned by the property; the direct evaluation below counts the writes the real code makes)
	// --- writer failure at every Write call the real code makes, all modes, property evaluated directly
	var fcases []Case
	for fi, f := range forests {
		doc := spell(f, plainSpelling)
		for _, mode := range []string{"text", "batch-text", "dry", "json", "yaml", "toml"} {
			if mode == "toml" && len(f) != 1 {
				continue
			}
			if !ctx.Thorough && (fi+len(mode))%2 == 0 {
				continue
			}
			maxk := 12
			for k := 0; k < maxk; k++ {
				c := newCase("wfault")
				c.Mode, c.Doc, c.DocText, c.WFail, c.Exts = mode, hx(doc), docText(doc), k, []string{".go"}
				if k%3 == 1 {
					c.Short = 2
				}
				fcases = append(fcases, c)
				if len(f) == 1 && k%2 == 0 {
					c2 := c
					c2.FromRoot, c2.Tree = true, f[0].Enc()
					fcases = append(fcases, c2)
				}
				if mode != "batch-text" && (fi+k)%3 == 0 {
					c3 := c
					c3.Massive = true
					fcases = append(fcases, c3)
					if len(f) == 1 && mode != "toml" {
						c4 := c3
						c4.FromRoot, c4.Tree = true, f[0].Enc()
						fcases = append(fcases, c4)
					}
				}
			}
		}
	}
	for k := 0; k < pick(ctx.Thorough, 6000, 600); k++ {
		f := randForest(ctx.Rng, 1+ctx.Rng.Intn(10), []string{"plain", "plain", "unicode", "quotes", "blanks"}, 3, rep.Dist)
		if !representable(f, plainSpelling) {
			continue
		}
		doc := spell(f, plainSpelling)
		c := newCase("wfault")
		c.Mode = []string{"text", "batch-text", "dry", "json", "yaml"}[ctx.Rng.Intn(5)]
		c.Doc, c.DocText, c.WFail, c.Exts = hx(doc), docText(doc), ctx.Rng.Intn(3*f[0].Size()+3), extLists[ctx.Rng.Intn(len(extLists))]
		if ctx.Rng.Intn(3) == 0 {
			c.Short = 1 + ctx.Rng.Intn(4)
		}
		switch r := ctx.Rng.Intn(6); {
		case r == 0 && len(f) == 1:
			c.FromRoot, c.Tree = true, f[0].Enc()
		case r == 1 && c.Mode != "batch-text":
			c.Massive = true
		}
		c.Note = "seeded"
		fcases = append(fcases, c)
	}
	parallel(fcases, ctx.Workers, func(m *Model, c Case) {
		diffs := runWFault(c)
		rep.Record(c, caseKey(c), c.WFail >= 1, diffs)
		rep.Count("wfault:" + c.Mode + ifs(c.FromRoot, "/root", "") + ifs(c.Massive, "/massive", ""))
	})
	// --- massive mode: reader failure after every offset must surface as the reader's error
	var mr []Case
	for fi, f := range forests {
		if len(f) < 2 && fi%3 != 0 {
			continue
		}
		doc := spell(f, coveringSpellings()[fi%len(coveringSpellings())])
		for k := 0; k <= len(doc); k += 1 + fi%3 {
			c := newCase("massive-reader")
			c.Mode = []string{"text", "json", "dry", "walk"}[(fi+k)%4]
			c.Doc, c.DocText = hx(doc[:k]), docText(doc[:k])
			mr = append(mr, c)
		}
	}
	parallel(mr, ctx.Workers, func(m *Model, c Case) {
		diffs := runMassiveReader(c)
		rep.Record(c, caseKey(c), len(c.Doc) > 8, diffs)
		rep.Count("massive-reader:" + c.Mode)
	})
	// a reader that fails once and would deliver more afterwards: the first failure is the result
	{
		docs := [][]byte{[]byte("- a\n  - b\n- c\n"), []byte("\n\n- a\n  - b\n"), []byte("# r\n- x\n\t- y\n")}
		for di, doc := range docs {
			for k := 0; k <= len(doc); k++ {
				for mi, mode := range []string{"text", "batch", "json", "dry", "massive", "massive-json", "walk", "mkdir-dry"} {
					r := &transientReader{pre: append([]byte{}, doc[:k]...), post: append([]byte{}, doc[k:]...)}
					var w bytes.Buffer
					var err error
					switch mode {
					case "text":
						err = gtree.OutputFromMarkdown(&w, r)
					case "batch":
						err = gtree.OutputFromMarkdown(&w, r, gtree.WithNoUseIterOfSimpleOutput())
					case "json":
						err = gtree.OutputFromMarkdown(&w, r, gtree.WithEncodeJSON())
					case "dry":
						err = gtree.OutputFromMarkdown(&w, r, gtree.WithDryRun())
					case "massive":
						var lb lockedBuf
						err = gtree.OutputFromMarkdown(&lb, r, gtree.WithMassive(context.Background()))
					case "massive-json":
						var lb lockedBuf
						err = gtree.OutputFromMarkdown(&lb, r, gtree.WithMassive(context.Background()), gtree.WithEncodeJSON())
					case "walk":
						err = gtree.WalkFromMarkdown(r, func(*gtree.WalkerNode) error { return nil })
					case "mkdir-dry":
						colorOutMu.Lock()
						err = gtree.MkdirFromMarkdown(r, gtree.WithDryRun(), gtree.WithTargetDir(os.TempDir()))
						colorOutMu.Unlock()
					}
					var diffs []Diff
					if !errors.Is(err, errReader) {
						diffs = append(diffs, Diff{What: "the reader failed once after " + fmtInt(k) + " bytes (" + mode + ") but the call did not return its error", Real: classify(err), Model: "reader"})
					}
					rep.Record(map[string]any{"kind": "transient-reader", "doc": string(doc), "after": k, "mode": mode}, "transient:"+fmtInt(di)+"/"+fmtInt(k)+"/"+fmtInt(mi), k > 0, diffs)
					rep.Count("transient-reader:" + mode)
				}
			}
		}
	}
	// a reader / writer whose error is (or wraps) context.Canceled while the call's own context is alive: still a failure
	{
		var roots []*Tree
		for i := 0; i < 14; i++ {
			roots = append(roots, &Tree{Name: "c" + fmtInt(i), Kids: []*Tree{{Name: "k"}}})
		}
		doc := spell(roots, plainSpelling)
		wrapped := fmt.Errorf("read body: %w", context.Canceled)
		for mi, mode := range []string{"text", "json", "dry", "massive", "massive-json", "massive-dry", "massive-walk"} {
			for _, side := range []string{"reader", "writer"} {
				var r io.Reader = bytes.NewReader(doc)
				var w io.Writer = &lockedBuf{}
				if side == "reader" {
					r = &errAfterReader{data: doc[:len(doc)/2], err: wrapped}
				} else {
					w = &errWriter2{err: wrapped}
				}
				if side == "writer" && mode == "massive-walk" {
					continue
				}
				var opts []gtree.Option
				if strings.HasPrefix(mode, "massive") {
					opts = append(opts, gtree.WithMassive(context.Background()))
				}
				var err error
				switch strings.TrimPrefix(mode, "massive-") {
				case "text", "massive":
					err = gtree.OutputFromMarkdown(w, r, opts...)
				case "json":
					err = gtree.OutputFromMarkdown(w, r, append(opts, gtree.WithEncodeJSON())...)
				case "dry":
					err = gtree.OutputFromMarkdown(w, r, append(opts, gtree.WithDryRun())...)
				case "walk":
					err = gtree.WalkFromMarkdown(r, func(*gtree.WalkerNode) error { return nil }, opts...)
				}
				var diffs []Diff
				if err == nil {
					diffs = append(diffs, Diff{What: "the " + side + " failed with an error wrapping context.Canceled (" + mode + ") but the call returned nil", Real: "nil", Model: "non-nil"})
				}
				rep.Record(map[string]any{"kind": "fault-wrapping-canceled", "mode": mode, "side": side}, "wrapcancel:"+fmtInt(mi)+side, true, diffs)
				rep.Count("fault-wrapping-canceled:" + side)
			}
		}
	}
	// --- transient writer faults: exactly the k-th Write fails (0 or a few bytes accepted, with an error) and every
	// later Write is accepted again – for every k of the fault-free run, every output path: a nil return would say
	// that the output is complete although a write was refused
	{
		var tcases []Case
		tfmts := []Fmt4{fmtDefault, fmtCustom, fmtEmpty, fmtMulti}
		add := func(f []*Tree, note string, i int) {
			doc := spell(f, plainSpelling)
			for mi, mode := range []string{"text", "batch-text", "dry", "json", "yaml", "toml"} {
				if mode == "toml" && len(f) != 1 {
					continue
				}
				c := newCase("wfault-transient")
				c.Mode, c.Doc, c.DocText, c.Exts, c.Note = mode, hx(doc), docText(doc), []string{".go"}, note
				c.Fmt = tfmts[(i+mi)%len(tfmts)]
				c.Short = []int{0, 0, 1, 3}[(i+mi)%4]
				tcases = append(tcases, c)
				if len(f) == 1 {
					c2 := c
					c2.FromRoot, c2.Tree = true, f[0].Enc()
					tcases = append(tcases, c2)
				}
				if mode != "batch-text" && ((i+mi)%3 == 0 || note != "") {
					c3 := c
					c3.Massive = true
					tcases = append(tcases, c3)
					if len(f) == 1 {
						c4 := c3
						c4.FromRoot, c4.Tree = true, f[0].Enc()
						tcases = append(tcases, c4)
					}
				}
			}
		}
		for fi, f := range forests {
			if ctx.Thorough || fi%3 == int(ctx.Seed%3+3)%3 || len(f) == 1 {
				add(f, "", fi)
			}
		}
		for k := 0; k < pick(ctx.Thorough, 1500, 150); k++ {
			f := randForest(ctx.Rng, 2+ctx.Rng.Intn(14), []string{"plain", "plain", "unicode", "quotes"}, 3, rep.Dist)
			if representable(f, plainSpelling) {
				add(f, "seeded", k)
			}
		}
		add(bigShapes()["deep"], "big:deep", 0)
		add(bigShapes()["many-roots"], "big:many-roots", 1)
		parallel(tcases, ctx.Workers, func(m *Model, c Case) {
			diffs, hits := runWTransient(c)
			rep.Record(c, caseKey(c), hits >= 2, diffs)
			rep.Count("wfault-transient:" + c.Mode + ifs(c.FromRoot, "/root", "") + ifs(c.Massive, "/massive", ""))
			rep.Count("wfault-transient: faults injected=" + ifs(hits >= 10, "10+", ifs(hits >= 3, "3-9", fmtInt(hits))))
		})
	}
	// --- the VALUE of the injected error must not matter: faults that are (or wrap) errors other code gives a
	// meaning to – a broken pipe, a closed pipe, a closed file, an unexpected EOF, a reset connection – incl. real
	// pipes whose other end has been closed
	{
		var vcases []faultValueCase
		var docs [][]*Tree
		docs = append(docs, []*Tree{{Name: "r", Kids: []*Tree{{Name: "a", Kids: []*Tree{{Name: "b.go"}}}, {Name: "c"}}}}, bigShapes()["many-roots"][:9])
		for len(docs) < pick(ctx.Thorough, 12, 5) {
			f := randForest(ctx.Rng, 2+ctx.Rng.Intn(12), []string{"plain", "plain", "unicode", "quotes"}, 3, rep.Dist)
			if representable(f, plainSpelling) {
				docs = append(docs, f)
			}
		}
		for di, f := range docs {
			doc := spell(f, coveringSpellings()[ctx.Rng.Intn(len(coveringSpellings()))])
			if !representable(f, plainSpelling) {
				continue
			}
			for vi, val := range faultValues {
				for mi, mode := range []string{"text", "batch-text", "dry", "json", "yaml", "toml", "walk", "mkdir-dry", "verify"} {
					if mode == "toml" && len(f) != 1 {
						continue
					}
					for _, massive := range []bool{false, true} {
						if massive && mode == "batch-text" {
							continue
						}
						if !ctx.Thorough && di >= 2 && (di+vi+mi)%3 != 0 {
							continue
						}
						for _, side := range []string{"writer", "reader"} {
							if side == "writer" && (mode == "walk" || mode == "mkdir-dry" || mode == "verify") {
								continue
							}
							if side == "reader" && (val == "eof" || val == "real-os-pipe") {
								continue // io.EOF from a reader is the end of the document, not a fault
							}
							c := faultValueCase{Kind: "fault-value", Doc: hx(doc), Text: docText(doc), Mode: mode, Massive: massive, Side: side, Value: val, Fmt: allFormats()[(di+vi+mi)%len(allFormats())]}
							if side == "reader" {
								c.After = ctx.Rng.Intn(len(doc) + 1)
							} else {
								c.After = ctx.Rng.Intn(3) // the writer accepts this many writes first
							}
							vcases = append(vcases, c)
							if side == "writer" && len(f) == 1 {
								c.FromRoot, c.Tree = true, f[0].Enc()
								vcases = append(vcases, c)
							}
						}
					}
				}
			}
		}
		parallel(vcases, ctx.Workers, func(m *Model, c faultValueCase) {
			diffs := runFaultValue(c)
			rep.Record(c, caseKey2(c), true, diffs)
			rep.Count("fault-value:" + c.Side + "/" + c.Value + ifs(c.Massive, "/massive", ""))
		})
	}
	// a failing writer that also offers WriteString (files, bufio writers do), and reports larger than any buffer
	{
		wide := bigShapes()["wide"]
		docs := map[string][]byte{"wide": spell(wide, plainSpelling), "many": spell(bigShapes()["many-roots"], plainSpelling), "small": []byte("- a\n  - b\n")}
		for name, doc := range docs {
			for mi, mode := range []string{"text", "batch", "dry", "dry-batch", "json", "massive", "massive-dry"} {
				var opts []gtree.Option
				switch mode {
				case "batch":
					opts = append(opts, gtree.WithNoUseIterOfSimpleOutput())
				case "dry":
					opts = append(opts, gtree.WithDryRun(), gtree.WithFileExtensions([]string{".go"}))
				case "dry-batch":
					opts = append(opts, gtree.WithDryRun(), gtree.WithNoUseIterOfSimpleOutput())
				case "json":
					opts = append(opts, gtree.WithEncodeJSON())
				case "massive":
					opts = append(opts, gtree.WithMassive(context.Background()))
				case "massive-dry":
					opts = append(opts, gtree.WithMassive(context.Background()), gtree.WithDryRun())
				}
				w := &stringFailWriter{}
				err := gtree.OutputFromMarkdown(w, bytes.NewReader(doc), opts...)
				var diffs []Diff
				if err == nil {
					diffs = append(diffs, Diff{What: "a writer that refuses every byte (Write and WriteString) but the call returned nil (" + mode + ", " + name + ")", Real: "nil", Model: "non-nil"})
				}
				rep.Record(map[string]any{"kind": "string-writer-fault", "mode": mode, "doc": name}, "strwriter:"+name+fmtInt(mi), true, diffs)
				rep.Count("string-writer-fault")
			}
		}
	}
	// the command line is a caller like any other: a standard output that refuses every byte (/dev/full) must
	// not be reported as success, however little was to be written
	if _, err := os.Stat("/dev/full"); err == nil {
		bin := cliBinary()
		dir := newJail()
		defer os.RemoveAll(dir)
		docs := []string{"- a\n", "- a\n  - b\n  - c\n- d\n", string(spell(forestsUpTo(3, []string{"a", "b"})[40], plainSpelling))}
		for di, d := range docs {
			for ai, args := range [][]string{{"output"}, {"output", "--format", "json"}, {"output", "--format", "yaml"}, {"output", "--format", "toml"}, {"output", "--massive"}, {"mkdir", "--dry-run"}} {
				if args[len(args)-1] == "toml" && strings.Count(d, "\n- ") > 0 {
					continue
				}
				run := execCli(bin, dir, args, []byte(d), "full")
				var diffs []Diff
				if run.crashed || run.code == 0 {
					diffs = append(diffs, Diff{What: "gtree " + strings.Join(args, " ") + " > /dev/full: the write failure is not reported", Real: fmt.Sprintf("exit %d crashed=%v stderr=%q", run.code, run.crashed, run.stderr), Model: "a non-zero exit status"})
				}
				rep.Record(map[string]any{"kind": "cli-full", "args": args, "doc": d}, "clifull:"+fmtInt(di)+"/"+fmtInt(ai), true, diffs)
				rep.Count("cli:/dev/full")
			}
		}
	}
	return rep
}

// errAfterReader delivers its data and then fails with the given error (for ever).
type errAfterReader struct {
	data []byte
	err  error
}

func (r *errAfterReader) Read(p []byte) (int, error) {
	if len(r.data) == 0 {
		return 0, r.err
	}
	n := copy(p, r.data)
	r.data = r.data[n:]
	return n, nil
}

// errWriter2 fails every write with the given error.
type errWriter2 struct{ err error }

func (w *errWriter2) Write(p []byte) (int, error) { return 0, w.err }

// stringFailWriter refuses every byte and also implements io.StringWriter, like *os.File on a full disk.
type stringFailWriter struct{ mu sync.Mutex }

func (w *stringFailWriter) Write(p []byte) (int, error)       { return 0, errWriter }
func (w *stringFailWriter) WriteString(s string) (int, error) { return 0, errWriter }

// ---------------------------------------------------------------- transient writer faults

// transientWriter refuses exactly its k-th Write (accepting `short` bytes of it, with an error) and accepts every other.
type transientWriter struct {
	mu    sync.Mutex
	buf   bytes.Buffer
	k     int
	short int
	calls int
	hit   bool
}

func (w *transientWriter) Write(p []byte) (int, error) {
	w.mu.Lock()
	defer w.mu.Unlock()
	i := w.calls
	w.calls++
	if i == w.k {
		w.hit = true
		n := w.short
		if n > len(p) {
			n = len(p)
		}
		w.buf.Write(p[:n])
		return n, errWriter
	}
	w.buf.Write(p)
	return len(p), nil
}

// runWTransient: for every k of the fault-free run's Write calls, a writer that refuses only the k-th Write.
// Returns the differences and the number of faults that were actually injected.
func runWTransient(c Case) ([]Diff, int) {
	call := func(w io.Writer) error {
		var opts []gtree.Option
		switch c.Mode {
		case "text":
			opts = fmtOpts(c.Fmt)
		case "batch-text":
			opts = append(fmtOpts(c.Fmt), gtree.WithNoUseIterOfSimpleOutput())
		case "dry":
			opts = []gtree.Option{gtree.WithDryRun(), gtree.WithFileExtensions(c.Exts)}
		case "json", "yaml", "toml":
			opts = []gtree.Option{encodeOpt(c.Mode)}
		}
		if c.Massive {
			opts = append(opts, gtree.WithMassive(context.Background()))
		}
		if c.FromRoot {
			return gtree.OutputFromRoot(w, buildRoot(parseTreeEnc(c.Tree)), opts...)
		}
		return gtree.OutputFromMarkdown(w, bytes.NewReader(c.doc()), opts...)
	}
	free := &transientWriter{k: -1}
	if err := call(free); err != nil {
		return []Diff{{What: "fault-free run failed", Real: classify(err), Model: "nil"}}, 0
	}
	free.mu.Lock()
	n, full := free.calls, append([]byte{}, free.buf.Bytes()...)
	free.mu.Unlock()
	// every k up to 48, beyond that a spread that keeps the last writes
	var ks []int
	for k := 0; k < n; k++ {
		if k < 48 || k >= n-4 || k%((n/40)+1) == 0 {
			ks = append(ks, k)
		}
	}
	hits := 0
	var d []Diff
	for _, k := range ks {
		w := &transientWriter{k: k, short: c.Short}
		err := call(w)
		w.mu.Lock()
		hit, got := w.hit, append([]byte{}, w.buf.Bytes()...)
		w.mu.Unlock()
		if !hit {
			continue // (massive mode batches its writes differently from run to run) no write was refused
		}
		hits++
		if err == nil {
			d = append(d, Diff{What: "the writer refused write " + fmtInt(k) + " of " + fmtInt(n) + " (and accepted the later ones) but the call returned nil", Real: "nil; accepted " + fmtInt(len(got)) + " bytes: " + hx(clip(got, 300)), Model: "a non-nil error (the complete output has " + fmtInt(len(full)) + " bytes)"})
			if len(d) >= 3 {
				break
			}
		}
	}
	return d, hits
}

func clip(b []byte, n int) []byte {
	if len(b) > n {
		return b[:n]
	}
	return b
}

func caseKey2(c any) string {
	b, _ := json.Marshal(c)
	return string(b)
}

// ---------------------------------------------------------------- the value of the injected error

type faultValueCase struct {
	Kind     string `json:"kind"`
	Doc      string `json:"doc_hex"`
	Text     string `json:"doc_text,omitempty"`
	Tree     string `json:"tree,omitempty"`
	FromRoot bool   `json:"from_root,omitempty"`
	Mode     string `json:"mode"`
	Massive  bool   `json:"massive,omitempty"`
	Side     string `json:"side"`  // reader | writer
	Value    string `json:"value"` // which error the fault is
	After    int    `json:"after"` // reader: bytes delivered first; writer: writes accepted first
	Fmt      Fmt4   `json:"fmt"`
}

var faultValues = []string{"epipe", "path-epipe", "closedpipe", "wrapped-closedpipe", "unexpected-eof", "os-closed", "wrapped-os-closed",
	"connreset", "deadline", "eof", "short-write", "no-progress", "real-io-pipe", "real-os-pipe"}

func faultValue(v string) error {
	switch v {
	case "epipe":
		return syscall.EPIPE
	case "path-epipe":
		return &os.PathError{Op: "write", Path: "|1", Err: syscall.EPIPE}
	case "closedpipe", "real-io-pipe":
		return io.ErrClosedPipe
	case "wrapped-closedpipe":
		return fmt.Errorf("stream to client: %w", io.ErrClosedPipe)
	case "unexpected-eof":
		return io.ErrUnexpectedEOF
	case "os-closed":
		return os.ErrClosed
	case "wrapped-os-closed":
		return &os.PathError{Op: "read", Path: "in.md", Err: os.ErrClosed}
	case "connreset":
		return syscall.ECONNRESET
	case "deadline":
		return os.ErrDeadlineExceeded
	case "eof":
		return io.EOF
	case "short-write":
		return io.ErrShortWrite
	case "no-progress":
		return io.ErrNoProgress
	case "real-os-pipe":
		return syscall.EPIPE
	}
	return errWriter
}

// okThenErrWriter accepts `ok` writes and fails every later one with err.
type okThenErrWriter struct {
	mu     sync.Mutex
	ok     int
	err    error
	failed bool
}

func (w *okThenErrWriter) Write(p []byte) (int, error) {
	w.mu.Lock()
	defer w.mu.Unlock()
	if w.ok > 0 {
		w.ok--
		return len(p), nil
	}
	w.failed = true
	return 0, w.err
}

// lockedWriter serialises writes to a real pipe end.
type lockedWriter struct {
	mu sync.Mutex
	w  io.Writer
}

func (w *lockedWriter) Write(p []byte) (int, error) {
	w.mu.Lock()
	defer w.mu.Unlock()
	return w.w.Write(p)
}

func runFaultValue(c faultValueCase) []Diff {
	want := faultValue(c.Value)
	var r io.Reader = bytes.NewReader(unhx(c.Doc))
	var w io.Writer = &lockedBuf{}
	switch {
	case c.Side == "reader" && c.Value == "real-io-pipe":
		// the read end of an io.Pipe that its owner has closed
		pr, pw := io.Pipe()
		pr.Close()
		defer pw.Close()
		r = pr
	case c.Side == "reader":
		doc := unhx(c.Doc)
		r = &errAfterReader{data: doc[:min(c.After, len(doc))], err: want}
	case c.Value == "real-io-pipe":
		pr, pw := io.Pipe()
		pr.Close() // the consumer has gone
		defer pw.Close()
		w = pw
	case c.Value == "real-os-pipe":
		pr, pw, err := os.Pipe()
		if err != nil {
			return nil
		}
		pr.Close() // a write to this pipe now fails with EPIPE (the descriptor is not 1 or 2: no SIGPIPE death)
		defer pw.Close()
		w = &lockedWriter{w: pw}
	default:
		w = &okThenErrWriter{ok: c.After, err: want}
	}
	var opts []gtree.Option
	if c.Massive {
		opts = append(opts, gtree.WithMassive(context.Background()))
	}
	var err error
	out := func(o ...gtree.Option) error {
		if c.FromRoot {
			return gtree.OutputFromRoot(w, buildRoot(parseTreeEnc(c.Tree)), append(opts, o...)...)
		}
		return gtree.OutputFromMarkdown(w, r, append(opts, o...)...)
	}
	switch c.Mode {
	case "text":
		err = out(fmtOpts(c.Fmt)...)
	case "batch-text":
		err = out(append(fmtOpts(c.Fmt), gtree.WithNoUseIterOfSimpleOutput())...)
	case "dry":
		err = out(gtree.WithDryRun(), gtree.WithFileExtensions([]string{".go"}))
	case "json", "yaml", "toml":
		err = out(encodeOpt(c.Mode))
	case "walk":
		err = gtree.WalkFromMarkdown(r, func(*gtree.WalkerNode) error { return nil }, opts...)
	case "mkdir-dry":
		colorOutMu.Lock()
		old := colorOutput()
		setColorOutput(&lockedBuf{})
		err = gtree.MkdirFromMarkdown(r, append(opts, gtree.WithDryRun(), gtree.WithTargetDir(os.TempDir()))...)
		setColorOutput(old)
		colorOutMu.Unlock()
	case "verify":
		// against a directory that holds the whole document's tree: nothing but the reader can fail
		jail := newJail()
		defer os.RemoveAll(jail)
		if merr := gtree.MkdirFromMarkdown(bytes.NewReader(unhx(c.Doc)), gtree.WithTargetDir(jail)); merr != nil {
			return nil
		}
		err = gtree.VerifyFromMarkdown(r, append(opts, gtree.WithTargetDir(jail))...)
	}
	if ow, ok := w.(*okThenErrWriter); ok {
		ow.mu.Lock()
		failed := ow.failed
		ow.mu.Unlock()
		if !failed {
			// the whole output fitted into the writes the writer accepts: no fault was injected
			if err != nil {
				return []Diff{{What: "no write was refused but the call failed", Real: err.Error(), Model: "nil"}}
			}
			return nil
		}
	}
	what := "the " + c.Side + " failed with " + c.Value + " (" + want.Error() + "; " + c.Mode + ifs(c.Massive, ", massive", "") + ifs(c.FromRoot, ", From-Root", "") + ")"
	if err == nil {
		return []Diff{{What: what + " but the call returned nil", Real: "nil", Model: "that error"}}
	}
	if !errors.Is(err, want) && !strings.Contains(err.Error(), want.Error()) {
		// (an encoder may flatten the writer's error into its own message: the text of the fault must still be there)
		return []Diff{{What: what + " but the call returned another error", Real: err.Error(), Model: want.Error()}}
	}
	return nil
}
