package main

import (
	"bytes"
	"context"
	"encoding/json"
	"errors"
	"fmt"
	"io"
	"os"
	"strings"
	"sync"
	"unicode/utf8"

	"github.com/ddddddO/gtree"
)

// C14: reader and writer failures are reported, never swallowed.

func init() {
	props["c14"] = runC14
	replayers["massive-reader"] = func(m *Model, raw json.RawMessage) []Diff {
		var c Case
		json.Unmarshal(raw, &c)
		return runMassiveReader(c)
	}
	replayers["wfault"] = func(m *Model, raw json.RawMessage) []Diff {
		var c Case
		json.Unmarshal(raw, &c)
		return runWFault(c)
	}
}

// runWFault: the property evaluated directly on the real code, for every output mode:
// with a writer failing at Write call k of the N the fault-free run makes, the call must not return
// nil (and if it returned nil, every byte must have been accepted).
func runWFault(c Case) []Diff {
	call := func(w *faultWriter) error {
		var opts []gtree.Option
		switch c.Mode {
		case "text":
			opts = fmtOpts(c.Fmt)
		case "batch-text":
			opts = append(fmtOpts(c.Fmt), gtree.WithNoUseIterOfSimpleOutput())
		case "dry":
			opts = []gtree.Option{gtree.WithDryRun(), gtree.WithFileExtensions(c.Exts)}
		case "json", "yaml", "toml":
			opts = []gtree.Option{encodeOpt(c.Mode)}
		}
		if c.Massive {
			opts = append(opts, gtree.WithMassive(context.Background()))
		}
		if c.FromRoot {
			return gtree.OutputFromRoot(w, buildRoot(parseTreeEnc(c.Tree)), opts...)
		}
		return gtree.OutputFromMarkdown(w, bytes.NewReader(c.doc()), opts...)
	}
	free := &faultWriter{failAt: -1}
	if err := call(free); err != nil {
		return []Diff{{What: "fault-free run failed", Real: classify(err), Model: "nil"}}
	}
	_, full := free.markReturned()
	var d []Diff
	if c.WFail >= free.calls {
		return nil
	}
	w := &faultWriter{failAt: c.WFail, short: c.Short}
	err := call(w)
	w.markReturned()
	if err == nil {
		d = append(d, Diff{What: "writer failed at write " + fmtInt(c.WFail) + " of " + fmtInt(free.calls) + " but the call returned nil", Real: "nil; accepted fewer than the " + fmtInt(len(full)) + " bytes of the output", Model: "non-nil error"})
	} else if !errors.Is(err, errWriter) {
		// still fine for the property (non-nil), but record unexpected classes
		if classify(err) == "nil" {
			d = append(d, Diff{What: "unexpected", Real: classify(err)})
		}
	}
	return d
}

// runMassiveReader: massive mode with a reader that fails after the given prefix of a well-formed document.
func runMassiveReader(c Case) []Diff {
	opts := []gtree.Option{gtree.WithMassive(context.Background())}
	var err error
	w := &faultWriter{failAt: -1}
	r := &faultReader{data: c.doc(), fail: true, chunk: 5}
	switch c.Mode {
	case "text":
		err = gtree.OutputFromMarkdown(w, r, opts...)
	case "json":
		err = gtree.OutputFromMarkdown(w, r, append(opts, gtree.WithEncodeJSON())...)
	case "dry":
		err = gtree.OutputFromMarkdown(w, r, append(opts, gtree.WithDryRun())...)
	case "walk":
		err = gtree.WalkFromMarkdown(r, func(*gtree.WalkerNode) error { return nil }, opts...)
	}
	w.markReturned()
	if !errors.Is(err, errReader) {
		return []Diff{{What: "massive mode: the reader failed but the call did not return the reader's error", Real: classify(err), Model: "reader"}}
	}
	return nil
}

func runC14(ctx *Ctx) *Report {
	rep := NewReport("C14")
	n := 4
	if ctx.Thorough {
		n = 5
	}
	forests := forestsUpTo(n, []string{"a", "b.go"})
	// --- reader failure after every byte offset, every simple entry point, vs the model
	var cases []Case
	kinds := []string{"iter-text", "batch-text", "iter-dry", "json", "yaml", "walk", "mkdir", "verify"}
	ki := 0
	for fi, f := range forests {
		sp := coveringSpellings()[fi%len(coveringSpellings())]
		doc := spell(f, sp)
		stepK := 1
		if !ctx.Thorough && len(doc) > 12 {
			stepK = 2
		}
		for k := 0; k <= len(doc); k += stepK {
			kind := kinds[ki%len(kinds)]
			ki++
			var c Case
			switch kind {
			case "iter-text", "batch-text", "iter-dry":
				c = newCase("out")
				c.Mode = kind
			case "json", "yaml":
				c = newCase("outf")
				c.Format = kind
			case "walk":
				c = newCase("walk")
			case "mkdir":
				c = newCase("mkdir")
				c.Target = "t"
			case "verify":
				c = newCase("verify")
				c.Target = "t"
			}
			c.Doc = hx(doc[:k])
			c.DocText = docText(doc[:k])
			c.Fail = true
			c.Note = "reader fails after " + fmtInt(k) + " of " + fmtInt(len(doc)) + " bytes"
			cases = append(cases, c)
		}
	}
	// seeded stream: random forests, names and notations, a reader that fails at a random offset
	for k := 0; k < pick(ctx.Thorough, 8000, 800); k++ {
		f := randForest(ctx.Rng, 1+ctx.Rng.Intn(10), []string{"plain", "plain", "unicode", "quotes", "blanks", "bullets"}, 3, rep.Dist)
		sp := randSpelling(ctx.Rng)
		doc := spell(f, sp)
		wellFormed := representable(f, sp)
		at := ctx.Rng.Intn(len(doc) + 1)
		kind := kinds[ctx.Rng.Intn(len(kinds))]
		var c Case
		switch kind {
		case "iter-text", "batch-text", "iter-dry":
			c = newCase("out")
			c.Mode = kind
			c.Exts = extLists[ctx.Rng.Intn(len(extLists))]
		case "json", "yaml":
			c = newCase("outf")
			c.Format = kind
			if !utf8.Valid(doc[:at]) {
				c.Format = "yaml"
				c.ErrOnly = true
			}
		case "walk":
			c = newCase("walk")
		case "mkdir":
			c = newCase("mkdir")
			c.Target = "t"
		case "verify":
			c = newCase("verify")
			c.Target = "t"
		}
		c.Doc, c.DocText, c.Fail = hx(doc[:at]), docText(doc[:at]), true
		c.Chunk = []int{0, 1, 3, 7}[ctx.Rng.Intn(4)]
		c.Note = "seeded: reader fails after " + fmtInt(at) + " of " + fmtInt(len(doc)) + " bytes"
		if !wellFormed {
			c.Note = "seeded, document not well-formed: the model decides which error comes first"
		}
		cases = append(cases, c)
	}
	parallel(cases, ctx.Workers, func(m *Model, c Case) {
		diffs, realv := runCaseR(m, c)
		// direct: a well-formed document cut short by a failing reader must report the reader's error
		if resultClass(realv) != "reader" && !strings.Contains(c.Note, "not well-formed") {
			diffs = append(diffs, Diff{What: "the reader failed but the call did not return the reader's error", Real: realv, Model: "e=reader"})
		}
		rep.Record(c, caseKey(c), len(c.Doc) > 8, diffs)
		rep.Count("reader:" + c.Kind + ifs(c.Mode != "", "/"+c.Mode, "") + ifs(c.Format != "", "/"+c.Format, ""))
	})
	// (writer faults are not compared with the model's chunk indexes: how the code batches its writes is
	// not pinned by the property; the direct evaluation below counts the writes the real code makes)
	// --- writer failure at every Write call the real code makes, all modes, property evaluated directly
	var fcases []Case
	for fi, f := range forests {
		doc := spell(f, plainSpelling)
		for _, mode := range []string{"text", "batch-text", "dry", "json", "yaml", "toml"} {
			if mode == "toml" && len(f) != 1 {
				continue
			}
			if !ctx.Thorough && (fi+len(mode))%2 == 0 {
				continue
			}
			maxk := 12
			for k := 0; k < maxk; k++ {
				c := newCase("wfault")
				c.Mode, c.Doc, c.DocText, c.WFail, c.Exts = mode, hx(doc), docText(doc), k, []string{".go"}
				if k%3 == 1 {
					c.Short = 2
				}
				fcases = append(fcases, c)
				if len(f) == 1 && k%2 == 0 {
					c2 := c
					c2.FromRoot, c2.Tree = true, f[0].Enc()
					fcases = append(fcases, c2)
				}
				if mode != "batch-text" && (fi+k)%3 == 0 {
					c3 := c
					c3.Massive = true
					fcases = append(fcases, c3)
					if len(f) == 1 && mode != "toml" {
						c4 := c3
						c4.FromRoot, c4.Tree = true, f[0].Enc()
						fcases = append(fcases, c4)
					}
				}
			}
		}
	}
	for k := 0; k < pick(ctx.Thorough, 6000, 600); k++ {
		f := randForest(ctx.Rng, 1+ctx.Rng.Intn(10), []string{"plain", "plain", "unicode", "quotes", "blanks"}, 3, rep.Dist)
		if !representable(f, plainSpelling) {
			continue
		}
		doc := spell(f, plainSpelling)
		c := newCase("wfault")
		c.Mode = []string{"text", "batch-text", "dry", "json", "yaml"}[ctx.Rng.Intn(5)]
		c.Doc, c.DocText, c.WFail, c.Exts = hx(doc), docText(doc), ctx.Rng.Intn(3*f[0].Size()+3), extLists[ctx.Rng.Intn(len(extLists))]
		if ctx.Rng.Intn(3) == 0 {
			c.Short = 1 + ctx.Rng.Intn(4)
		}
		switch r := ctx.Rng.Intn(6); {
		case r == 0 && len(f) == 1:
			c.FromRoot, c.Tree = true, f[0].Enc()
		case r == 1 && c.Mode != "batch-text":
			c.Massive = true
		}
		c.Note = "seeded"
		fcases = append(fcases, c)
	}
	parallel(fcases, ctx.Workers, func(m *Model, c Case) {
		diffs := runWFault(c)
		rep.Record(c, caseKey(c), c.WFail >= 1, diffs)
		rep.Count("wfault:" + c.Mode + ifs(c.FromRoot, "/root", "") + ifs(c.Massive, "/massive", ""))
	})
	// --- massive mode: reader failure after every offset must surface as the reader's error
	var mr []Case
	for fi, f := range forests {
		if len(f) < 2 && fi%3 != 0 {
			continue
		}
		doc := spell(f, coveringSpellings()[fi%len(coveringSpellings())])
		for k := 0; k <= len(doc); k += 1 + fi%3 {
			c := newCase("massive-reader")
			c.Mode = []string{"text", "json", "dry", "walk"}[(fi+k)%4]
			c.Doc, c.DocText = hx(doc[:k]), docText(doc[:k])
			mr = append(mr, c)
		}
	}
	parallel(mr, ctx.Workers, func(m *Model, c Case) {
		diffs := runMassiveReader(c)
		rep.Record(c, caseKey(c), len(c.Doc) > 8, diffs)
		rep.Count("massive-reader:" + c.Mode)
	})
	// a reader that fails once and would deliver more afterwards: the first failure is the result
	{
		docs := [][]byte{[]byte("- a\n  - b\n- c\n"), []byte("\n\n- a\n  - b\n"), []byte("# r\n- x\n\t- y\n")}
		for di, doc := range docs {
			for k := 0; k <= len(doc); k++ {
				for mi, mode := range []string{"text", "batch", "json", "dry", "massive", "massive-json", "walk", "mkdir-dry"} {
					r := &transientReader{pre: append([]byte{}, doc[:k]...), post: append([]byte{}, doc[k:]...)}
					var w bytes.Buffer
					var err error
					switch mode {
					case "text":
						err = gtree.OutputFromMarkdown(&w, r)
					case "batch":
						err = gtree.OutputFromMarkdown(&w, r, gtree.WithNoUseIterOfSimpleOutput())
					case "json":
						err = gtree.OutputFromMarkdown(&w, r, gtree.WithEncodeJSON())
					case "dry":
						err = gtree.OutputFromMarkdown(&w, r, gtree.WithDryRun())
					case "massive":
						var lb lockedBuf
						err = gtree.OutputFromMarkdown(&lb, r, gtree.WithMassive(context.Background()))
					case "massive-json":
						var lb lockedBuf
						err = gtree.OutputFromMarkdown(&lb, r, gtree.WithMassive(context.Background()), gtree.WithEncodeJSON())
					case "walk":
						err = gtree.WalkFromMarkdown(r, func(*gtree.WalkerNode) error { return nil })
					case "mkdir-dry":
						colorOutMu.Lock()
						err = gtree.MkdirFromMarkdown(r, gtree.WithDryRun(), gtree.WithTargetDir(os.TempDir()))
						colorOutMu.Unlock()
					}
					var diffs []Diff
					if !errors.Is(err, errReader) {
						diffs = append(diffs, Diff{What: "the reader failed once after " + fmtInt(k) + " bytes (" + mode + ") but the call did not return its error", Real: classify(err), Model: "reader"})
					}
					rep.Record(map[string]any{"kind": "transient-reader", "doc": string(doc), "after": k, "mode": mode}, "transient:"+fmtInt(di)+"/"+fmtInt(k)+"/"+fmtInt(mi), k > 0, diffs)
					rep.Count("transient-reader:" + mode)
				}
			}
		}
	}
	// a reader / writer whose error is (or wraps) context.Canceled while the call's own context is alive: still a failure
	{
		var roots []*Tree
		for i := 0; i < 14; i++ {
			roots = append(roots, &Tree{Name: "c" + fmtInt(i), Kids: []*Tree{{Name: "k"}}})
		}
		doc := spell(roots, plainSpelling)
		wrapped := fmt.Errorf("read body: %w", context.Canceled)
		for mi, mode := range []string{"text", "json", "dry", "massive", "massive-json", "massive-dry", "massive-walk"} {
			for _, side := range []string{"reader", "writer"} {
				var r io.Reader = bytes.NewReader(doc)
				var w io.Writer = &lockedBuf{}
				if side == "reader" {
					r = &errAfterReader{data: doc[:len(doc)/2], err: wrapped}
				} else {
					w = &errWriter2{err: wrapped}
				}
				if side == "writer" && mode == "massive-walk" {
					continue
				}
				var opts []gtree.Option
				if strings.HasPrefix(mode, "massive") {
					opts = append(opts, gtree.WithMassive(context.Background()))
				}
				var err error
				switch strings.TrimPrefix(mode, "massive-") {
				case "text", "massive":
					err = gtree.OutputFromMarkdown(w, r, opts...)
				case "json":
					err = gtree.OutputFromMarkdown(w, r, append(opts, gtree.WithEncodeJSON())...)
				case "dry":
					err = gtree.OutputFromMarkdown(w, r, append(opts, gtree.WithDryRun())...)
				case "walk":
					err = gtree.WalkFromMarkdown(r, func(*gtree.WalkerNode) error { return nil }, opts...)
				}
				var diffs []Diff
				if err == nil {
					diffs = append(diffs, Diff{What: "the " + side + " failed with an error wrapping context.Canceled (" + mode + ") but the call returned nil", Real: "nil", Model: "non-nil"})
				}
				rep.Record(map[string]any{"kind": "fault-wrapping-canceled", "mode": mode, "side": side}, "wrapcancel:"+fmtInt(mi)+side, true, diffs)
				rep.Count("fault-wrapping-canceled:" + side)
			}
		}
	}
	// a failing writer that also offers WriteString (files, bufio writers do), and reports larger than any buffer
	{
		wide := bigShapes()["wide"]
		docs := map[string][]byte{"wide": spell(wide, plainSpelling), "many": spell(bigShapes()["many-roots"], plainSpelling), "small": []byte("- a\n  - b\n")}
		for name, doc := range docs {
			for mi, mode := range []string{"text", "batch", "dry", "dry-batch", "json", "massive", "massive-dry"} {
				var opts []gtree.Option
				switch mode {
				case "batch":
					opts = append(opts, gtree.WithNoUseIterOfSimpleOutput())
				case "dry":
					opts = append(opts, gtree.WithDryRun(), gtree.WithFileExtensions([]string{".go"}))
				case "dry-batch":
					opts = append(opts, gtree.WithDryRun(), gtree.WithNoUseIterOfSimpleOutput())
				case "json":
					opts = append(opts, gtree.WithEncodeJSON())
				case "massive":
					opts = append(opts, gtree.WithMassive(context.Background()))
				case "massive-dry":
					opts = append(opts, gtree.WithMassive(context.Background()), gtree.WithDryRun())
				}
				w := &stringFailWriter{}
				err := gtree.OutputFromMarkdown(w, bytes.NewReader(doc), opts...)
				var diffs []Diff
				if err == nil {
					diffs = append(diffs, Diff{What: "a writer that refuses every byte (Write and WriteString) but the call returned nil (" + mode + ", " + name + ")", Real: "nil", Model: "non-nil"})
				}
				rep.Record(map[string]any{"kind": "string-writer-fault", "mode": mode, "doc": name}, "strwriter:"+name+fmtInt(mi), true, diffs)
				rep.Count("string-writer-fault")
			}
		}
	}
	// the command line is a caller like any other: a standard output that refuses every byte (/dev/full) must
	// not be reported as success, however little was to be written
	if _, err := os.Stat("/dev/full"); err == nil {
		bin := cliBinary()
		dir := newJail()
		defer os.RemoveAll(dir)
		docs := []string{"- a\n", "- a\n  - b\n  - c\n- d\n", string(spell(forestsUpTo(3, []string{"a", "b"})[40], plainSpelling))}
		for di, d := range docs {
			for ai, args := range [][]string{{"output"}, {"output", "--format", "json"}, {"output", "--format", "yaml"}, {"output", "--format", "toml"}, {"output", "--massive"}, {"mkdir", "--dry-run"}} {
				if args[len(args)-1] == "toml" && strings.Count(d, "\n- ") > 0 {
					continue
				}
				run := execCli(bin, dir, args, []byte(d), "full")
				var diffs []Diff
				if run.crashed || run.code == 0 {
					diffs = append(diffs, Diff{What: "gtree " + strings.Join(args, " ") + " > /dev/full: the write failure is not reported", Real: fmt.Sprintf("exit %d crashed=%v stderr=%q", run.code, run.crashed, run.stderr), Model: "a non-zero exit status"})
				}
				rep.Record(map[string]any{"kind": "cli-full", "args": args, "doc": d}, "clifull:"+fmtInt(di)+"/"+fmtInt(ai), true, diffs)
				rep.Count("cli:/dev/full")
			}
		}
	}
	return rep
}

// errAfterReader delivers its data and then fails with the given error (for ever).
type errAfterReader struct {
	data []byte
	err  error
}

func (r *errAfterReader) Read(p []byte) (int, error) {
	if len(r.data) == 0 {
		return 0, r.err
	}
	n := copy(p, r.data)
	r.data = r.data[n:]
	return n, nil
}

// errWriter2 fails every write with the given error.
type errWriter2 struct{ err error }

func (w *errWriter2) Write(p []byte) (int, error) { return 0, w.err }

// stringFailWriter refuses every byte and also implements io.StringWriter, like *os.File on a full disk.
type stringFailWriter struct{ mu sync.Mutex }

func (w *stringFailWriter) Write(p []byte) (int, error)       { return 0, errWriter }
func (w *stringFailWriter) WriteString(s string) (int, error) { return 0, errWriter }
