package main

import (
	"bytes"
	"strings"

	"github.com/ddddddO/gtree"
)

// The massive mode's splitter (input_spliter.go) against the model's `splitBlocks` (Model/Split.lean),
// through the VerifSplit hook: same blocks, in the same order, for every document.
func runSplit(m *Model, doc []byte) []Diff {
	blocks, err := gtree.VerifSplit(bytes.NewReader(doc))
	var hb []string
	for _, b := range blocks {
		hb = append(hb, hxs(b))
	}
	real := strings.Join(hb, ",")
	if len(hb) == 0 {
		real = "_"
	}
	model := m.Ask("split " + ifs(len(doc) == 0, "-", hx(doc)))
	i := strings.LastIndex(model, " toolong=")
	if i < 0 {
		return []Diff{{What: "split: model answer", Real: real, Model: model}}
	}
	tooLong := model[i+len(" toolong="):] == "1"
	if tooLong {
		if err == nil {
			return []Diff{{What: "split: a row beyond the scanner's limit is not reported", Real: "nil", Model: "token too long"}}
		}
		return nil // blocks sent before the failing row are not compared
	}
	if err != nil {
		return []Diff{{What: "split: unexpected error", Real: classify(err), Model: "nil"}}
	}
	return cmp("split: blocks sent", real, model[:i])
}
