package main

import (
	"io"
	"strings"

	"github.com/ddddddO/gtree"
)

// C02, the declarative side: for every document of the suite the real library's verdict is compared with
// Spec/Malformed.lean's judgement directly (driver op `malformed`): nil iff no row is malformed, a format
// error naming the first malformed row for the classes noBullet / badIndent / jump, `empty text` for
// emptyText, `nil stack` for orphan.  (The theorem C02_error_iff_malformed says the model's generator agrees
// with that judgement on every document; this evaluates the judgement against the real code.)
func runC02Spec(rep *Report, cases []Case, workers int) {
	seen := map[string]bool{}
	var docs []Case
	for _, c := range cases {
		if c.Fail || seen[c.Doc] {
			continue
		}
		seen[c.Doc] = true
		sc := newCase("malformed-spec")
		sc.Doc, sc.DocText, sc.Note = c.Doc, c.DocText, c.Note
		docs = append(docs, sc)
	}
	parallel(docs, workers, func(m *Model, c Case) {
		err := gtree.OutputFromMarkdown(io.Discard, c.reader())
		realv := classify(err)
		ans := m.Ask("malformed " + c.Doc0())
		modelv, class := ans, ""
		if i := strings.LastIndex(ans, " class="); i >= 0 {
			modelv, class = ans[:i], ans[i+len(" class="):]
		}
		diffs := cmp("verdict of the declarative judgement (Spec/Malformed.lean: firstMalformed)", realv, modelv)
		rep.Record(c, "spec:"+c.Doc, class != "none" && strings.Count(c.DocText, "\n") >= 3, diffs)
		rep.Count("malformation:" + class)
	})
}
