package main

import (
	"strings"
	"unicode/utf8"
)

// C02: a document is rendered completely or rejected. Malformation classes are injected at every
// row of well-formed documents; the real verdict, error payload and output are compared with the model.

func init() { props["c02"] = runC02 }

type injection struct {
	class string
	row   func(indent string, unit string) string
}

var injections = []injection{
	{"M1-no-symbol", func(in, u string) string { return in + "x" }},
	{"M1-text-before-bullet", func(in, u string) string { return in + "x - y" }},
	{"M1-only-indent-char-then-text", func(in, u string) string { return in + u + "zz" }},
	{"M2-empty-hyphen", func(in, u string) string { return in + "-" }},
	{"M2-empty-hyphen-space", func(in, u string) string { return in + "- " }},
	{"M2-empty-star", func(in, u string) string { return in + "*" }},
	{"M2-empty-sharp", func(in, u string) string { return "#" }},
	{"M2-empty-sharp-spaces", func(in, u string) string { return "##   " }},
	{"M3-not-multiple", func(in, u string) string { return in + " - z" }},
	{"M3-mixed-tab-space", func(in, u string) string { return in + " \t- z" }},
	{"M3-mixed-space-tab", func(in, u string) string { return in + "\t - z" }},
	{"M1-bom-before-bullet", func(in, u string) string { return in + "\ufeff- z" }},
	{"M1-nbsp-before-bullet", func(in, u string) string { return in + "\u00a0- z" }},
	{"M4-jump2", func(in, u string) string { return in + u + u + "- z" }},
	{"M4-jump3", func(in, u string) string { return in + u + u + u + "- z" }},
}

func runC02(ctx *Ctx) *Report {
	rep := NewReport("C02")
	n := 4
	if ctx.Thorough {
		n = 5
	}
	forests := forestsUpTo(n, []string{"a", "b"})
	spellings := []Spelling{
		{IndentChar: ' ', Unit: 2, Bullets: "-", FinalNL: true},
		{IndentChar: '\t', Unit: 1, Bullets: "-*", FinalNL: true},
		{IndentChar: ' ', Unit: 4, Bullets: "+", FinalNL: false, Sharp: true},
		{IndentChar: ' ', Unit: 3, Bullets: "*", FinalNL: true, BlankEvery: 2, BlankRow: " "},
		{IndentChar: ' ', Unit: 2, Bullets: "-*", FinalNL: true, NoSpace: true},
	}
	modes := []string{"out-iter", "out-batch", "walk", "json", "yaml", "dry"}
	var cases []Case
	k := 0
	textOf := func(row string) string {
		t := strings.TrimLeft(row, " \t")
		if strings.HasPrefix(t, "#") {
			return strings.Trim(strings.TrimLeft(t, "#"), " ")
		}
		if len(t) >= 2 {
			return strings.TrimPrefix(t[1:], " ")
		}
		return ""
	}
	add := func(doc string, class string) {
		mode := modes[k%len(modes)]
		k++
		if (mode == "json" || mode == "yaml") && !utf8.ValidString(doc) {
			mode = "out-batch" // the standard encoders replace invalid UTF-8: not this property's subject
		}
		var c Case
		switch mode {
		case "out-iter":
			c = newCase("out")
			c.Mode = "iter-text"
		case "out-batch":
			c = newCase("out")
			c.Mode = "batch-text"
		case "dry":
			c = newCase("out")
			c.Mode = "iter-dry"
			c.Exts = []string{".go"}
		case "walk":
			c = newCase("walk")
			for _, r := range strings.Split(doc, "\n") {
				// (the seeded stream leaves the expected texts to the model: its rows are cut by the model's scanner)
				if !isBlankGo(r) && class != "random-edit" && class != "random-well-formed" {
					c.Texts = append(c.Texts, textOf(r))
				}
			}
		case "json", "yaml":
			c = newCase("outf")
			c.Format = mode
		}
		c.Doc = hxs(doc)
		c.DocText = docText([]byte(doc))
		c.Note = class
		cases = append(cases, c)
	}
	for fi, f := range forests {
		sp := spellings[fi%len(spellings)]
		doc := string(spell(f, sp))
		nl := "\n"
		rows := strings.Split(strings.TrimSuffix(doc, nl), nl)
		unit := strings.Repeat(string(sp.IndentChar), sp.Unit)
		add(doc, "well-formed")
		for i, r := range rows {
			indent := r[:len(r)-len(strings.TrimLeft(r, " \t"))]
			for _, inj := range injections {
				bad := inj.row(indent, unit)
				// replace row i
				repl := append(append([]string{}, rows[:i]...), bad)
				repl = append(repl, rows[i+1:]...)
				add(strings.Join(repl, nl)+nl, inj.class+"/replace")
				if ctx.Thorough || (fi+i)%3 == 0 {
					ins := append(append([]string{}, rows[:i]...), bad)
					ins = append(ins, rows[i:]...)
					add(strings.Join(ins, nl)+nl, inj.class+"/insert")
				}
			}
			if i == 0 {
				// M5: an item before the first root
				add(unit+"- early"+nl+doc, "M5-item-before-root")
				add(unit+unit+"* early"+nl+doc, "M5-item-before-root")
			}
		}
	}
	// well-formed documents whose names contain bullet symbols, in notations using the other bullets:
	// they must be accepted ("error iff malformed")
	for fi, f := range forestsUpTo(3, []string{"todo - later", "a * b", "p + q", "-", "x"}) {
		for si, sp := range []Spelling{{IndentChar: ' ', Unit: 2, Bullets: "*", FinalNL: true}, {IndentChar: '\t', Unit: 1, Bullets: "+", FinalNL: true},
			{IndentChar: ' ', Unit: 4, Bullets: "+*-", FinalNL: false}, {IndentChar: ' ', Unit: 2, Bullets: "*+", FinalNL: true, Sharp: true}} {
			if (fi+si)%2 == 0 || ctx.Thorough {
				add(string(spell(f, sp)), "well-formed")
			}
		}
	}
	// names that differ only by letter case (or fold to the same letter) are different names: none may vanish
	for fi, f := range forestsUpTo(4, []string{"Makefile", "makefile", "\u212a"}) {
		if fi%2 == 0 || ctx.Thorough {
			add(string(spell(f, spellings[fi%len(spellings)])), "well-formed")
		}
	}
	// seeded stream: random forests and notations, then 1..3 random byte edits (insert, delete, replace,
	// swap two rows, duplicate a row) drawn from the bytes that matter to the parser; the model decides
	// the verdict, the error payload and the output of each
	nrand := 1500
	if ctx.Thorough {
		nrand = 12000
	}
	alphabet := []byte(" \t-*+#x\n\r a")
	for i := 0; i < nrand; i++ {
		f := randForest(ctx.Rng, 1+ctx.Rng.Intn(9), []string{"plain", "bullets", "blanks", "unicode"}, 3, rep.Dist)
		doc := spell(f, randSpelling(ctx.Rng))
		ne := ctx.Rng.Intn(4)
		for e := 0; e < ne && len(doc) > 0; e++ {
			pos := ctx.Rng.Intn(len(doc))
			b := alphabet[ctx.Rng.Intn(len(alphabet))]
			switch ctx.Rng.Intn(5) {
			case 0:
				doc = append(append(append([]byte{}, doc[:pos]...), b), doc[pos:]...)
			case 1:
				doc = append(append([]byte{}, doc[:pos]...), doc[pos+1:]...)
			case 2:
				doc = append([]byte{}, doc...)
				doc[pos] = b
			default:
				rows := strings.SplitAfter(string(doc), "\n")
				a, b2 := ctx.Rng.Intn(len(rows)), ctx.Rng.Intn(len(rows))
				if ctx.Rng.Intn(2) == 0 {
					rows[a], rows[b2] = rows[b2], rows[a]
				} else {
					rows = append(rows[:a+1], rows[a:]...)
				}
				doc = []byte(strings.Join(rows, ""))
			}
		}
		if ne == 0 {
			add(string(doc), "random-well-formed")
		} else {
			add(string(doc), "random-edit")
		}
	}
	// the same stream in massive mode: verdict relation to simple mode + no silent loss (real code)
	var mcases []Case
	for i, c := range cases {
		if i%4 != 0 && !ctx.Thorough {
			continue
		}
		mc := newCase("massive-verdict")
		mc.Doc, mc.DocText, mc.Note = c.Doc, c.DocText, c.Note
		mc.Mode = []string{"walk", "text", "json"}[i%3]
		for _, r := range strings.Split(string(unhx(c.Doc)), "\n") {
			if !isBlankGo(r) && !strings.HasPrefix(c.Note, "random-") {
				mc.Texts = append(mc.Texts, textOf(r))
			}
		}
		mcases = append(mcases, mc)
	}
	rep.Exhaustive = true
	rep.Notes = append(rep.Notes, "every malformation class at every row of every forest ≤ "+itoa(n)+" nodes over 2 names, 4 spellings rotating, 6 output modes rotating")
	runCasesClass(rep, cases, ctx.Workers)
	runC02Spec(rep, cases, ctx.Workers)
	parallel(mcases, ctx.Workers/2+1, func(m *Model, c Case) {
		diffs := runMassiveVerdict(c)
		rep.Record(c, caseKey(c), !strings.HasSuffix(c.Note, "well-formed"), diffs)
		rep.Count("massive:" + c.Mode)
	})
	knownHits.Lock()
	for k, v := range knownHits.m {
		rep.Known[k] += v
	}
	knownHits.Unlock()
	return rep
}

// runCasesClass is runCases that also records the error class hit (distribution of branches taken).
func runCasesClass(rep *Report, cases []Case, workers int) {
	parallel(cases, workers, func(m *Model, c Case) {
		diffs, realv := runCaseR(m, c)
		rep.Record(c, caseKey(c), !strings.HasSuffix(c.Note, "well-formed") && strings.Count(c.DocText, "\n") >= 3, diffs)
		rep.Count("class:" + strings.SplitN(c.Note, "/", 2)[0] + "=>" + resultClass(realv))
	})
}
