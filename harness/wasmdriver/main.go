// Command wasmdriver is compiled twice – with and without -tags tinywasm – and runs gtree.Output
// (the one entry point both build variants export) on cases read from stdin:
//
//	<mode> <fmt: 4 hex strings, comma separated> <exts: hex list> <doc hex>
//
// and prints   w=<hex of the bytes written> e=<error class>
package main

import (
	"bufio"
	"bytes"
	"encoding/hex"
	"fmt"
	"os"
	"strings"

	"github.com/ddddddO/gtree"
	"github.com/fatih/color"
)

func unhx(s string) []byte {
	if s == "-" || s == "" {
		return nil
	}
	b, err := hex.DecodeString(s)
	if err != nil {
		panic(err)
	}
	return b
}

func unhxList(s string) []string {
	if s == "_" {
		return nil
	}
	var out []string
	for _, p := range strings.Split(s, ",") {
		out = append(out, string(unhx(p)))
	}
	return out
}

func hx(b []byte) string {
	if len(b) == 0 {
		return "-"
	}
	return hex.EncodeToString(b)
}

func classify(err error) string {
	if err == nil {
		return "nil"
	}
	msg := err.Error()
	switch {
	case msg == "empty text":
		return "emptytext"
	case msg == "nil stack":
		return "nilstack"
	case strings.HasPrefix(msg, "incorrect input format: "):
		return "format:" + hx([]byte(strings.TrimPrefix(msg, "incorrect input format: ")))
	case strings.HasPrefix(msg, "invalid node name: "):
		return "invalidname:" + hx([]byte(strings.TrimPrefix(msg, "invalid node name: ")))
	case strings.HasPrefix(msg, "invalid path: "):
		return "invalidpath:" + hx([]byte(strings.TrimPrefix(msg, "invalid path: ")))
	case strings.Contains(msg, "token too long"):
		return "toolong"
	}
	return "other:" + msg
}

func main() {
	color.NoColor = true
	sc := bufio.NewScanner(os.Stdin)
	sc.Buffer(make([]byte, 1<<20), 1<<26)
	out := bufio.NewWriter(os.Stdout)
	defer out.Flush()
	for sc.Scan() {
		w := strings.Fields(sc.Text())
		if len(w) != 4 {
			fmt.Fprintln(out, "bad-op")
			continue
		}
		f := unhxList(w[1])
		exts := unhxList(w[2])
		doc := unhx(w[3])
		opts := []gtree.Option{gtree.WithBranchFormatLastNode(f[0], f[1]), gtree.WithBranchFormatIntermedialNode(f[2], f[3])}
		switch w[0] {
		case "json":
			opts = append(opts, gtree.WithEncodeJSON())
		case "dry":
			opts = append(opts, gtree.WithDryRun(), gtree.WithFileExtensions(exts))
		}
		var buf bytes.Buffer
		res := func() (s string) {
			defer func() {
				if r := recover(); r != nil {
					s = fmt.Sprintf("PANIC:%v", r)
				}
			}()
			err := gtree.Output(&buf, bytes.NewReader(doc), opts...)
			return "w=" + hx(buf.Bytes()) + " e=" + classify(err)
		}()
		fmt.Fprintln(out, res)
		out.Flush()
	}
}
