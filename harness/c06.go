package main

import (
	"bytes"
	"context"
	"encoding/json"
	"fmt"
	"github.com/ddddddO/gtree"
	"os"
	"path/filepath"
	"strings"
	"time"
)

// C06 / C07 / C08 / C09 share the jail machinery (cases.go: runMkdir / runVerify).

func init() {
	props["c06"] = runC06
	props["c07"] = runC07
	props["c08"] = runC08
	props["c09"] = runC09
}

var extLists = [][]string{nil, {".go", ".md", ".go"}, {".go"}, {"Makefile"}, {"go", ".go"}, {".md", "Makefile", ".go"}, {""}, {"a"}, {".x.go", ".go"}, {".go", ".x.go"}, {"b.go"}}

// randFSCases: the seeded stream shared by C06, C07 and C08 — random forests (hostile names when `hostile`),
// extension lists, targets, and a pre-populated jail drawn from the forest's own paths (some nodes exist
// already as a directory or a file of some size, some extras next to them); the model decides every case.
func randFSCases(ctx *Ctx, rep *Report, n int, kind string, hostile bool) []Case {
	classes := []string{"plain", "plain", "unicode", "quotes", "blanks"}
	if hostile {
		classes = append(classes, "path", "path")
	}
	safe := func(p string) bool {
		for _, e := range strings.Split(p, "/") {
			if e == "" || e == "." || e == ".." || strings.ContainsAny(e, "\x00") || len(e) > 200 {
				return false
			}
		}
		return true
	}
	var out []Case
	for k := 0; len(out) < n && k < 20*n; k++ {
		f := randForest(ctx.Rng, 1+ctx.Rng.Intn(9), classes, 3, rep.Dist)
		if !representable(f, plainSpelling) || !distinctRoots(f) {
			continue
		}
		doc := spell(f, plainSpelling)
		c := newCase(kind)
		c.Doc, c.DocText, c.Tree = hx(doc), docText(doc), encForest(f)
		c.Exts = extLists[ctx.Rng.Intn(len(extLists))]
		c.Target = []string{"t", "t", "sub/t", "missing/deeper/t"}[ctx.Rng.Intn(4)]
		c.Note = "seeded"
		paths, _ := nodePaths(f)
		have := map[string]bool{}
		addPre := func(path, kind string) {
			// the ancestors are listed too: what the jail holds before the call is exactly c.Pre
			els := strings.Split(path, "/")
			for i := 1; i < len(els); i++ {
				if a := strings.Join(els[:i], "/"); !have[a] {
					have[a] = true
					c.Pre = append(c.Pre, FSEntry{a, "d"})
				}
			}
			if !have[path] {
				have[path] = true
				c.Pre = append(c.Pre, FSEntry{path, kind})
			}
		}
		if c.Target != "missing/deeper/t" {
			addPre(c.Target, "d")
			for _, q := range paths {
				if !safe(q) || (hostile && strings.Contains(q, "/")) {
					continue
				}
				switch r := ctx.Rng.Intn(kindOdds(kind)); {
				case r == 0 && !hostile:
					addPre(c.Target+"/"+q, "d")
				case r == 1 && !hostile:
					addPre(c.Target+"/"+q, []string{"f0", "f1", "f7"}[ctx.Rng.Intn(3)])
				case r == 2:
					addPre(c.Target+"/"+q+"-extra", []string{"d", "f2"}[ctx.Rng.Intn(2)])
				}
			}
		}
		c.Pre = append(c.Pre, FSEntry{"sentinel", "d"}, FSEntry{"sentinel/keep.txt", "f3"})
		switch kind {
		case "mkdir":
			c.Dry = ctx.Rng.Intn(6) == 0
			if len(f) == 1 && ctx.Rng.Intn(3) == 0 {
				c.FromRoot, c.Tree, c.Doc = true, f[0].Enc(), ""
				c.Alias = ctx.Rng.Intn(2) == 0
			}
		case "verify":
			c.Strict = ctx.Rng.Intn(2) == 0
			if len(f) == 1 && ctx.Rng.Intn(3) == 0 {
				c.FromRoot, c.Tree, c.Doc = true, f[0].Enc(), ""
			}
		}
		out = append(out, c)
	}
	return out
}

func pick(b bool, x, y int) int {
	if b {
		return x
	}
	return y
}

// kindOdds: a verify case wants most of the tree present, a mkdir case little of it
func kindOdds(kind string) int {
	if kind == "verify" {
		return 3
	}
	return 9
}

// nodePaths lists the relative paths (under the target) of all nodes of the forest.
func nodePaths(f []*Tree) (paths []string, leaf map[string]bool) {
	leaf = map[string]bool{}
	var rec func(t *Tree, prefix string)
	rec = func(t *Tree, prefix string) {
		p := t.Name
		if prefix != "" {
			p = prefix + "/" + t.Name
		}
		paths = append(paths, p)
		if len(t.Kids) == 0 {
			leaf[p] = true
		}
		for _, k := range t.Kids {
			rec(k, p)
		}
	}
	for _, t := range f {
		rec(t, "")
	}
	return
}

func runC06(ctx *Ctx) *Report {
	rep := NewReport("C06")
	n := 4
	if ctx.Thorough {
		n = 5
	}
	var cases []Case
	forests := forestsUpTo(n, []string{"a", "a-old", "b.go", "Makefile"})
	long := strings.Repeat("L", 256)
	i := 0
	for _, f := range forests {
		if !distinctRoots(f) {
			continue
		}
		doc := spell(f, plainSpelling)
		exts := extLists[i%len(extLists)]
		i++
		base := newCase("mkdir")
		base.Doc, base.DocText, base.Exts, base.Tree = hx(doc), docText(doc), exts, encForest(f)
		// target states: existing empty, missing, nested missing
		for ti, target := range []string{"t", "missing/deeper/t"} {
			c := base
			c.Target = target
			if ti == 0 {
				c.Pre = []FSEntry{{"t", "d"}, {"sentinel", "d"}, {"sentinel/keep.txt", "f3"}}
			}
			cases = append(cases, c)
		}
		// every root pre-existing as file or directory (one at a time), and an unrelated pre-existing entry
		for ri, r := range f {
			for _, kind := range []string{"d", "f2"} {
				c := base
				c.Target = "t"
				c.Pre = []FSEntry{{"t", "d"}, {"t/" + r.Name, kind}, {"t/other", "d"}, {"t/other/x", "f1"}}
				c.Note = "root pre-exists"
				if (i+ri)%2 == 0 || ctx.Thorough {
					cases = append(cases, c)
				}
			}
		}
		if i%5 == 0 {
			// the target itself is a regular file: every Stat fails with ENOTDIR
			c := base
			c.Target = "t"
			c.Pre = []FSEntry{{"t", "f1"}}
			c.Note = "target is a file"
			cases = append(cases, c)
			// From-Root variant of the plain case (single root)
			if len(f) == 1 {
				c := base
				c.FromRoot, c.Tree, c.Target = true, f[0].Enc(), "t"
				cases = append(cases, c)
			}
		}
		if i%11 == 0 {
			// OS refusal: an over-long name below the first root
			g := []*Tree{{Name: f[0].Name, Kids: append([]*Tree{{Name: "ok"}, {Name: long, Kids: []*Tree{{Name: "under"}}}}, f[0].Kids...)}}
			d2 := spell(g, plainSpelling)
			c := base
			c.Doc, c.DocText, c.Target, c.Note, c.Tree = hx(d2), "over-long name", "t", "over-long name", ""
			cases = append(cases, c)
		}
	}
	// OS refusals at every position among the siblings: an over-long file leaf (first, middle, last, only one),
	// an over-long directory, an over-long leaf directory – each is reported, whatever comes after it
	{
		longF := strings.Repeat("F", 254) + ".go" // 257 bytes, ends with the extension
		longD := strings.Repeat("D", 256)
		mk := func(kids ...*Tree) []*Tree { return []*Tree{{Name: "r", Kids: kids}} }
		leaf := func(n string) *Tree { return &Tree{Name: n} }
		for fi, f := range [][]*Tree{
			mk(leaf(longF), leaf("a.go"), leaf("b.go")),
			mk(leaf("a.go"), leaf(longF), leaf("b.go")),
			mk(leaf("a.go"), leaf("b.go"), leaf(longF)),
			mk(leaf(longF)),
			mk(leaf("a.go"), &Tree{Name: longD, Kids: []*Tree{leaf("x.go")}}, leaf("b.go")),
			mk(leaf("d"), leaf(longD), leaf("e")),
			mk(&Tree{Name: "sub", Kids: []*Tree{leaf("a.go"), leaf(longF), leaf("z.go")}}, leaf("after")),
			{{Name: "r1", Kids: []*Tree{leaf(longF), leaf("ok.go")}}, {Name: "r2", Kids: []*Tree{leaf("fine.go")}}},
		} {
			doc := spell(f, plainSpelling)
			for _, exts := range [][]string{{".go"}, {".go", ".md"}, nil} {
				c := newCase("mkdir")
				c.Doc, c.DocText, c.Exts, c.Target, c.Note = hx(doc), "<over-long name, shape "+fmtInt(fi)+">", exts, "t", "os-refusal"
				c.Pre = []FSEntry{{"t", "d"}, {"keep", "f2"}}
				cases = append(cases, c)
				if len(f) == 1 {
					c.FromRoot, c.Tree, c.Doc = true, f[0].Enc(), ""
					cases = append(cases, c)
				}
			}
		}
	}
	// large shapes (a 300-byte name is refused by the OS: reported, nothing existing changes)
	for bi, name := range []string{"deep", "wide", "many-roots", "long-names"} {
		f := bigShapes()[name]
		doc := spell(f, plainSpelling)
		c := newCase("mkdir")
		c.Doc, c.DocText, c.Exts, c.Target, c.Note = hx(doc), "<"+name+">", extLists[(bi+1)%len(extLists)], "t", "big:"+name
		cases = append(cases, c)
		if len(f) == 1 {
			c.FromRoot, c.Tree, c.Doc = true, f[0].Enc(), ""
			cases = append(cases, c)
		}
	}
	// the target directory as the caller spelled it
	for ti, tgt := range []string{"t/", "./t", "t/../t", "t//", "./t/.", "a/./b/../b/t", "t/./"} {
		for fi, f := range forests {
			if (fi+ti)%97 != 0 || !distinctRoots(f) {
				continue
			}
			doc := spell(f, plainSpelling)
			c := newCase("mkdir")
			c.Doc, c.DocText, c.Exts, c.Target, c.RawTgt, c.Tree = hx(doc), docText(doc), extLists[(fi+ti)%len(extLists)], tgt, true, encForest(f)
			c.Pre = []FSEntry{{"a", "d"}, {"a/b", "d"}}
			cases = append(cases, c)
			c2 := c
			c2.Kind, c2.Strict = "verify", ti%2 == 0
			c2.Pre = []FSEntry{{"a", "d"}, {"a/b", "d"}, {"t", "d"}, {"t/" + f[0].Name, "d"}, {"a/b/t", "d"}, {"a/b/t/" + f[0].Name, "d"}}
			cases = append(cases, c2)
		}
	}
	// "nothing that existed before has changed", whatever the names: paths that would resolve onto existing
	// entries (a `..` or `.` element below a root) with files and directories already there
	for hi, doc := range []string{
		"- a\n  - ..\n    - keep.txt\n", "- a\n  - ..\n    - old\n      - x\n", "- a\n  - .\n    - keep.txt\n", "- a\n  - b\n    - ..\n      - ..\n        - keep.txt\n",
		"- a\n  - ..\n    - a\n      - new.txt\n", "- r\n  - x\n- a\n  - ..\n    - r\n      - y.txt\n",
	} {
		for ei, exts := range [][]string{{".txt"}, nil, {"keep.txt", "old"}} {
			c := newCase("mkdir")
			c.Doc, c.DocText, c.Exts, c.Target, c.Note = hxs(doc), doc, exts, "t", "dot element below a root"
			c.Pre = []FSEntry{{"t", "d"}, {"t/keep.txt", "f7"}, {"t/old", "d"}, {"t/old/x", "f2"}, {"keep.txt", "f3"}}
			cases = append(cases, c)
			if hi < 5 && ei == 0 {
				c2 := c
				c2.Doc, c2.DocText, c2.FromRoot = "", "", true
				c2.Tree = parseDocTree(doc).Enc()
				cases = append(cases, c2)
			}
		}
	}
	// extensions with more than one dot (".tar.gz", ".d.ts"), names that end with them, with a tail of them, with
	// their tail only; the shorter tail configured as well or not: "ends with a configured extension" is about the
	// whole configured string, not about what a path library calls the extension of the name
	{
		dotted := []string{"vendor.tar.gz", "types.d.ts", "app.min.js", "a.gz", "x.tar", "index.ts", "lib", ".tar.gz", "tar.gz", "b.tar.gz.bak", "c.d.ts.map", "v1.2.3", "x..gz", "archive.tar.gz", "Makefile", "y.spec.ts", ".d.ts", "k.js"}
		dotExts := [][]string{{".tar.gz"}, {".d.ts"}, {".d.ts", ".go"}, {".min.js", ".tar.gz"}, {".gz", ".tar.gz"}, {".tar.gz", ".gz"}, {"tar.gz"}, {".ts"}, {".spec.ts", ".d.ts", ".tar.gz"}, {"..gz"}, {".2.3"}, {".tar.gz", "Makefile"}, {"r.tar.gz"}, {".tar.gz.bak", ".ts.map"}, {".gz"}, nil}
		mkDotted := func(r int) *Tree { return &Tree{Name: dotted[r%len(dotted)]} }
		nDot := 0
		for k := 0; k < pick(ctx.Thorough, 3000, 260); k++ {
			f := randForest(ctx.Rng, 2+ctx.Rng.Intn(9), []string{"plain"}, 3, nil)
			// most nodes get a dotted name (leaves decide file or directory; inner nodes stay directories whatever they are called)
			var all []*Tree
			var collect func(t *Tree)
			collect = func(t *Tree) {
				all = append(all, t)
				for _, kid := range t.Kids {
					collect(kid)
				}
			}
			for _, t := range f {
				collect(t)
			}
			for _, t := range all {
				if ctx.Rng.Intn(4) != 0 {
					t.Name = mkDotted(ctx.Rng.Intn(len(dotted))).Name
				}
			}
			if !distinctRoots(f) {
				continue
			}
			doc := spell(f, plainSpelling)
			c := newCase("mkdir")
			c.Doc, c.DocText, c.Tree, c.Note = hx(doc), docText(doc), encForest(f), "dotted-extension"
			c.Exts = dotExts[ctx.Rng.Intn(len(dotExts))]
			c.Target = []string{"t", "missing/deeper/t"}[ctx.Rng.Intn(2)]
			if c.Target == "t" {
				c.Pre = []FSEntry{{"t", "d"}, {"t/other.tar.gz", "f4"}, {"sentinel", "d"}, {"sentinel/keep.tar.gz", "f3"}}
			}
			c.Dry = ctx.Rng.Intn(8) == 0
			if len(f) == 1 && ctx.Rng.Intn(3) == 0 {
				c.FromRoot, c.Tree, c.Doc = true, f[0].Enc(), ""
				c.Alias = ctx.Rng.Intn(2) == 0
			}
			cases = append(cases, c)
			nDot++
			if k%4 == 0 && !c.Dry {
				// the same with the massive option: entry by entry what the simple mode creates
				mc := c
				mc.Kind, mc.Massive = "massive-mkdir", true
				rep.Record(mc, caseKey(mc), true, runMassiveMkdir(mc))
				rep.Count("massive-mkdir/dotted-extension")
			}
		}
		rep.Dist["dotted-extension cases"] = nDot
	}
	rep.Exhaustive = true
	rep.Notes = append(rep.Notes, "every forest ≤ "+itoa(n)+" nodes with distinct roots over {a, b.go, Makefile} × rotating extension lists × target states")
	cases = append(cases, randFSCases(ctx, rep, pick(ctx.Thorough, 6000, 500), "mkdir", false)...)
	runCases(rep, cases, ctx.Workers, func(c Case) bool { return len(c.Doc) > 24 })
	// many roots, one of them already there (as a file, as a directory): path-exists, nothing changes
	{
		var many []*Tree
		for i := 0; i < 24; i++ {
			many = append(many, &Tree{Name: "r" + fmtInt(i) + ".go", Kids: nil})
			many = append(many, &Tree{Name: "d" + fmtInt(i), Kids: []*Tree{{Name: "x"}}})
		}
		m := NewModel()
		for ci, pre := range [][]FSEntry{{{"t", "d"}, {"t/r17.go", "f4"}}, {{"t", "d"}, {"t/d20", "d"}, {"t/d20/keep", "f2"}}, {{"t", "d"}, {"t/r0.go", "f1"}}, {{"t", "d"}, {"t/d23", "f3"}}} {
			for _, nroots := range []int{16, 17, 18, 48} {
				doc := spell(many[:nroots], plainSpelling)
				c := newCase("mkdir")
				c.Doc, c.DocText, c.Exts, c.Target, c.Pre, c.Note = hx(doc), "<"+fmtInt(nroots)+" roots>", []string{".go"}, "t", pre, "many roots, one pre-exists"
				d, _ := runMkdir(m, c)
				rep.Record(c, caseKey(c), true, d)
				rep.Count("many-roots-one-exists")
				_ = ci
			}
		}
		m.Close()
	}
	// the massive option with a target spelled through a missing directory and back ("nope/../t"): one root, already there
	for _, kind := range []string{"d", "f3"} {
		for _, tgt := range []string{"nope/../t", "t/", "./t"} {
			c := newCase("massive-mkdir")
			c.Massive, c.Doc, c.DocText, c.Exts, c.Target, c.RawTgt = true, hxs("- r\n  - a.go\n"), "- r / a.go", []string{".go"}, tgt, true
			c.Pre = []FSEntry{{"t", "d"}, {"t/r", kind}}
			rep.Record(c, caseKey(c), true, runMassiveMkdir(c))
			rep.Count("massive-mkdir/raw-target")
		}
	}
	// more roots than the pipeline has workers, with the massive option: every root is created
	{
		var many []*Tree
		for i := 0; i < 45; i++ {
			many = append(many, &Tree{Name: "r" + fmtInt(i), Kids: []*Tree{{Name: "a", Kids: []*Tree{{Name: "b.go"}}}, {Name: "Makefile"}, {Name: "d" + fmtInt(i%4)}}})
		}
		for rep2 := 0; rep2 < 3; rep2++ {
			doc := spell(many[:12+16*rep2+1], plainSpelling)
			c := newCase("massive-mkdir")
			c.Massive, c.Doc, c.DocText, c.Exts, c.Target = true, hx(doc), "<many roots>", extLists[rep2%len(extLists)], "t"
			rep.Record(c, caseKey(c), true, runMassiveMkdir(c))
			rep.Count("massive-mkdir/many-roots")
		}
	}
	// the command line hands the extension list over as given: `gtree mkdir -e …` creates what the model says
	// for that list (whole-name suffixes such as Makefile, overlapping suffixes, none)
	{
		bin := cliBinary()
		m := NewModel()
		defer m.Close()
		doc := []byte("- r\n  - Makefile\n  - main.go\n  - x_test.go\n  - go\n  - lib\n    - .go\n    - a.Makefile\n")
		for ei, exts := range [][]string{{"Makefile"}, {".go", "Makefile"}, {"_test.go"}, {"go"}, nil, {".go", ".go"}, {"Makefile", ".Makefile"}} {
			jail := newJail()
			args := []string{"mkdir", "--target-dir", filepath.Join(jail, "t")}
			for _, e := range exts {
				args = append(args, "-e", e)
			}
			before := snapshot(jail)
			run := execCli(bin, jail, args, doc, "pipe")
			after := snapshot(jail)
			realv := "fs=" + strings.Join(after, ",") + " w=- e=" + ifs(run.code == 0, "nil", "fail")
			resp := m.Ask("mkdir " + fmtDefault.enc() + " " + hxList(exts) + " " + hxs(filepath.Join(jail, "t")) + " 0 " + encFS(jail, before) + " 0 " + hx(doc))
			modelv := resp
			if strings.HasPrefix(resp, "fs=") {
				parts := strings.SplitN(resp, " ", 2)
				modelv = "fs=" + stripAmbient(jail, strings.TrimPrefix(parts[0], "fs=")) + " " + parts[1]
			}
			rep.Record(map[string]any{"kind": "cli-mkdir", "args": args[3:], "doc": string(doc)}, "cli-mkdir:"+fmtInt(ei), true, cmp("gtree mkdir -e …", realv, modelv))
			rep.Count("cli:mkdir -e")
			os.RemoveAll(jail)
		}
	}
	return rep
}

// parseDocTree reads a one-root, two-space, hyphen-bullet document into a Tree (harness helper).
func parseDocTree(doc string) *Tree {
	var stack []*Tree
	for _, l := range strings.Split(strings.TrimSuffix(doc, "\n"), "\n") {
		t := strings.TrimLeft(l, " ")
		depth := (len(l) - len(t)) / 2
		n := &Tree{Name: strings.TrimPrefix(t, "- ")}
		if depth > 0 {
			stack[depth-1].Kids = append(stack[depth-1].Kids, n)
		}
		stack = append(stack[:depth], n)
	}
	return stack[0]
}

var hostilePathNames = []string{"/", "//", "/.", "./.", "/..", "\\", "..", ".", "a/b", "/x", "x/", "../..", "../../../evil", "a/../../b", "\xff", "ok", "...", "..a", "a\\b", "con", " ", "x\x00y", "./x", ".//x", "./", "x/."}

func runC07(ctx *Ctx) *Report {
	rep := NewReport("C07")
	n := 4
	if ctx.Thorough {
		n = 5
	}
	shapes := forestsUpTo(n, []string{"k"})
	var cases []Case
	idx := 0
	for _, sh := range shapes {
		// put each hostile name at each node position (others plain)
		var nodes []*Tree
		var collect func(t *Tree)
		collect = func(t *Tree) {
			nodes = append(nodes, t)
			for _, k := range t.Kids {
				collect(k)
			}
		}
		for _, t := range sh {
			collect(t)
		}
		for pos := range nodes {
			for hi, h := range hostilePathNames {
				if !ctx.Thorough && (idx+hi+pos)%3 != 0 {
					continue
				}
				for j, nd := range nodes {
					nd.Name = "n" + itoa(j)
				}
				nodes[pos].Name = h
				if !distinctRoots(sh) {
					continue
				}
				idx++
				exts := extLists[idx%len(extLists)]
				pre := []FSEntry{{"t", "d"}, {"sib", "d"}, {"sib/secret", "f5"}, {"evil-guard", "f1"}}
				for _, dry := range []bool{false, true} {
					if representable(sh, plainSpelling) && h != "\xff" || h == "\xff" {
						if !strings.ContainsAny(h, "\n") && h != " " {
							doc := spell(sh, plainSpelling)
							c := newCase("mkdir")
							c.Doc, c.DocText, c.Exts, c.Target, c.Pre, c.Dry = hx(doc), docText(doc), exts, "t", pre, dry
							c.Note = "hostile=" + h
							cases = append(cases, c)
						}
					}
					if len(sh) == 1 {
						c := newCase("mkdir")
						c.FromRoot, c.Tree, c.Exts, c.Target, c.Pre, c.Dry = true, sh[0].Enc(), exts, "t", pre, dry
						c.Note = "hostile=" + h
						cases = append(cases, c)
					}
				}
			}
		}
	}
	// a target that does not exist yet (a rejected tree or a dry run must not create it) and a target whose
	// name ends in a blank (its sibling without the blank must stay untouched)
	for _, h := range []string{"..", "a/b", "ok", "./x"} {
		for _, dry := range []bool{false, true} {
			doc := []byte("- r\n  - " + h + "\n  - fine\n")
			c := newCase("mkdir")
			c.Doc, c.DocText, c.Target, c.Dry, c.Note = hx(doc), docText(doc), "missing/deep/t", dry, "hostile="+h
			c.Pre = []FSEntry{{"sib", "d"}}
			cases = append(cases, c)
			c2 := c
			c2.Target = "t "
			c2.Pre = []FSEntry{{"t ", "d"}, {"t", "d"}, {"t/keep", "f1"}}
			cases = append(cases, c2)
		}
	}
	// empty names are only reachable through NewRoot/Add
	for _, enc := range []string{"(-)", "(72(-))", "(72(61(-)))", "(-(61))"} {
		for _, dry := range []bool{false, true} {
			c := newCase("mkdir")
			c.FromRoot, c.Tree, c.Target, c.Pre, c.Dry, c.Note = true, enc, "t", []FSEntry{{"t", "d"}, {"sib", "d"}}, dry, "hostile=<empty>"
			cases = append(cases, c)
		}
	}
	// a root that has been through a validating call already and then gets a hostile name somewhere below:
	// the next call validates the tree as it is now
	for hi, h := range []string{"..", "a/b", ".", "/"} {
		for _, first := range []string{"dry", "verify", "real"} {
			for _, massive := range []bool{false, true} {
				jail := newJail()
				t := filepath.Join(jail, "x", "t")
				root := gtree.NewRoot("r")
				b := root.Add("a").Add("b")
				var o []gtree.Option
				if massive {
					o = append(o, gtree.WithMassive(context.Background()))
				}
				switch first {
				case "dry":
					colorOutMu.Lock()
					old := colorOutput()
					setColorOutput(&lockedBuf{})
					gtree.MkdirFromRoot(root, append(o, gtree.WithTargetDir(t), gtree.WithDryRun())...)
					setColorOutput(old)
					colorOutMu.Unlock()
				case "verify":
					gtree.VerifyFromRoot(root, append(o, gtree.WithTargetDir(t))...)
				case "real":
					gtree.MkdirFromRoot(root, append(o, gtree.WithTargetDir(filepath.Join(jail, "first")))...)
				}
				n := b
				for i := 0; i < 4; i++ {
					n = n.Add(h)
					if h != ".." {
						break
					}
				}
				n.Add("esc")
				before := snapshot(jail)
				err := gtree.MkdirFromRoot(root, append(o, gtree.WithTargetDir(t))...)
				time.Sleep(5 * time.Millisecond)
				after := snapshot(jail)
				var diffs []Diff
				if k := errClass(classify(err)); k != "invalidname" && k != "invalidpath" {
					diffs = append(diffs, Diff{What: "a hostile name added after an earlier validating call (" + first + ") is not rejected", Real: classify(err), Model: "invalid node name"})
				}
				if !massive && strings.Join(before, ",") != strings.Join(after, ",") {
					diffs = append(diffs, Diff{What: "a rejected tree created something", Real: strings.Join(after, ","), Model: strings.Join(before, ",")})
				}
				for _, e := range after {
					pth := string(unhx(strings.SplitN(e, ":", 2)[0]))
					if !strings.HasPrefix(pth, filepath.Join(jail, "x")) && !strings.HasPrefix(pth, filepath.Join(jail, "first")) {
						diffs = append(diffs, Diff{What: "something was created outside the target", Real: pth, Model: "inside " + t})
					}
				}
				rep.Record(map[string]any{"kind": "revalidate", "hostile": h, "first": first, "massive": massive}, "revalidate:"+fmtInt(hi)+first+b01(massive), true, diffs)
				rep.Count("revalidate")
				os.RemoveAll(jail)
			}
		}
	}
	// a programmatic tree that has been through operations that do not validate names (text output, walk,
	// iterator walk, an encoder, a rejected dry run …) and is then given to Mkdir: what an earlier call left
	// on the nodes must not stand in for the validation of this call
	{
		var rcs []reuseCase
		firsts := []string{"none", "output", "output-alias", "output-fmt", "walk", "walk-alias", "walkiter", "walkiter-break", "json", "dry-rejected", "verify", "output+walk", "output-massive", "walk-massive"}
		for hi, h := range []string{"../../x", "..", ".", "a/b", "/", "", "../..", "x/", "./x", "a/../../b"} {
			for pi, pos := range []string{"child", "grandchild", "deep", "root"} {
				if pos == "root" && strings.HasPrefix(h, "../../") {
					continue
				}
				for fi, first := range firsts {
					if !ctx.Thorough && (hi+pi+fi)%3 != 0 && fi > 8 {
						continue
					}
					for _, massive := range []bool{false, true} {
						var t *Tree
						switch pos {
						case "child":
							t = &Tree{Name: "r", Kids: []*Tree{{Name: "a"}, {Name: h, Kids: []*Tree{{Name: "esc"}}}, {Name: "z"}}}
						case "grandchild":
							t = &Tree{Name: "r", Kids: []*Tree{{Name: "a", Kids: []*Tree{{Name: "b"}, {Name: h, Kids: []*Tree{{Name: "esc"}}}}}}}
						case "deep":
							t = &Tree{Name: "r", Kids: []*Tree{{Name: "a", Kids: []*Tree{{Name: "b", Kids: []*Tree{{Name: "c", Kids: []*Tree{{Name: h}}}}}}}, {Name: "after.go"}}}
						case "root":
							t = &Tree{Name: h, Kids: []*Tree{{Name: "a", Kids: []*Tree{{Name: "esc"}}}}}
						}
						rcs = append(rcs, reuseCase{Kind: "reuse-mkdir", Tree: t.Enc(), First: first, Massive: massive, Alias: (hi+fi)%2 == 0, Exts: extLists[(hi+fi)%len(extLists)], Hostile: h})
					}
				}
			}
		}
		// seeded: random trees over the hostile alphabet, a random sequence of one to three earlier operations
		for k := 0; k < pick(ctx.Thorough, 4000, 300); k++ {
			f := randForest(ctx.Rng, 2+ctx.Rng.Intn(8), []string{"plain", "plain", "path", "unicode"}, 1, rep.Dist)
			var seq []string
			for j, n := 0, 1+ctx.Rng.Intn(3); j < n; j++ {
				seq = append(seq, firsts[1+ctx.Rng.Intn(len(firsts)-1)])
			}
			rcs = append(rcs, reuseCase{Kind: "reuse-mkdir", Tree: f[0].Enc(), First: strings.Join(seq, ","), Massive: ctx.Rng.Intn(2) == 0, Alias: ctx.Rng.Intn(2) == 0, Exts: extLists[ctx.Rng.Intn(len(extLists))], Hostile: "seeded"})
		}
		parallel(rcs, ctx.Workers, func(m *Model, c reuseCase) {
			diffs, cls := runReuseMkdir(m, c)
			b, _ := json.Marshal(c)
			rep.Record(c, string(b), c.First != "none", diffs)
			rep.Count("reuse-then-mkdir" + ifs(c.Massive, "/massive", "") + ":" + cls)
		})
	}
	// a Mkdir that fails part-way in the file system (a name the OS refuses: longer than NAME_MAX, a NUL byte)
	// with a target directory that is not the working directory of the process: the working directory holds
	// entries named like the roots (workdir.go), and they are checked after every case
	{
		refused := []string{strings.Repeat("L", 300), "nul\x00byte", strings.Repeat("é", 150), strings.Repeat("m", 256) + ".go"}
		var oc []Case
		for k := 0; k < pick(ctx.Thorough, 1500, 120); k++ {
			f := randForest(ctx.Rng, 3+ctx.Rng.Intn(7), []string{"plain"}, 2, rep.Dist)
			if !distinctRoots(f) {
				continue
			}
			// the refused name goes to a node that is not a root (so the tree passes validation and the root is begun)
			var inner []*Tree
			var collect func(t *Tree, depth int)
			collect = func(t *Tree, depth int) {
				if depth > 0 {
					inner = append(inner, t)
				}
				for _, kid := range t.Kids {
					collect(kid, depth+1)
				}
			}
			for _, t := range f {
				collect(t, 0)
			}
			if len(inner) == 0 {
				continue
			}
			inner[ctx.Rng.Intn(len(inner))].Name = refused[ctx.Rng.Intn(len(refused))]
			c := newCase("mkdir")
			doc := spell(f, plainSpelling)
			c.Doc, c.DocText, c.Exts, c.Note = hx(doc), "<a name the OS refuses below "+f[0].Name+">", extLists[ctx.Rng.Intn(len(extLists))], "os-refusal"
			c.Target = []string{"t", "sub/t", "missing/deeper/t"}[ctx.Rng.Intn(3)]
			if c.Target != "missing/deeper/t" {
				c.Pre = []FSEntry{{c.Target, "d"}}
				if c.Target == "sub/t" {
					c.Pre = []FSEntry{{"sub", "d"}, {"sub/t", "d"}}
				}
			}
			c.Pre = append(c.Pre, FSEntry{"sib", "d"}, FSEntry{"sib/secret", "f5"})
			if len(f) == 1 && ctx.Rng.Intn(2) == 0 {
				c.FromRoot, c.Tree, c.Doc = true, f[0].Enc(), ""
				c.Alias = ctx.Rng.Intn(2) == 0
			}
			oc = append(oc, c)
		}
		cases = append(cases, oc...)
		for _, c := range oc {
			// the massive option on every one of them (below only every third case gets it)
			mc := c
			mc.Kind, mc.Massive, mc.Note = "massive-mkdir", true, "os-refusal/massive"
			rep.Record(mc, caseKey(mc), true, runMassiveMkdir(mc))
			rep.Count("massive-mkdir/os-refusal")
		}
	}
	cases = append(cases, randFSCases(ctx, rep, pick(ctx.Thorough, 6000, 500), "mkdir", true)...)
	var mcases []Case
	for i, c := range cases {
		if i%3 == 0 || ctx.Thorough {
			mc := c
			mc.Kind, mc.Massive = "massive-mkdir", true
			mcases = append(mcases, mc)
		}
	}
	parallel(mcases, ctx.Workers/2+1, func(m *Model, c Case) {
		diffs := runMassiveMkdir(c)
		rep.Record(c, caseKey(c), !strings.HasSuffix(c.Note, "=ok"), diffs)
		rep.Count("massive-mkdir" + ifs(c.Dry, "/dry", "") + ifs(c.FromRoot, "/root", ""))
	})
	parallel(cases, ctx.Workers, func(m *Model, c Case) {
		diffs, realv := runCaseR(m, c)
		// direct evaluation of C07 on the real result: nothing outside t/ changed; a rejected name creates nothing
		diffs = append(diffs, confinement(c, realv)...)
		rep.Record(c, caseKey(c), !strings.HasSuffix(c.Note, "=ok"), diffs)
		rep.Count("result:" + resultClass(realv))
		rep.Count(c.Note)
	})
	return rep
}

// confinement checks, on the real snapshot string, that only entries under <jail>/t/ were added.
func confinement(c Case, realv string) []Diff {
	if !strings.HasPrefix(realv, "fs=") {
		return nil
	}
	fsPart := strings.SplitN(strings.TrimPrefix(realv, "fs="), " ", 2)[0]
	pre := map[string]bool{}
	for _, e := range c.Pre {
		pre[e.Path] = true
	}
	var created []string
	for _, e := range strings.Split(fsPart, ",") {
		if e == "" {
			continue
		}
		p := string(unhx(strings.SplitN(e, ":", 2)[0]))
		// strip the jail prefix: …/<n>/rest
		i := strings.Index(p, "/vj")
		rest := p
		if i >= 0 {
			parts := strings.SplitN(p[i+1:], "/", 3)
			if len(parts) == 3 {
				rest = parts[2]
			}
		}
		if !pre[rest] {
			created = append(created, rest)
		}
	}
	var d []Diff
	cls := resultClass(realv)
	tgt := c.Target
	if tgt == "" {
		tgt = "t"
	}
	for _, p := range created {
		if !strings.HasPrefix(p, tgt+"/") && !(p == tgt || strings.HasPrefix(tgt, p+"/")) {
			d = append(d, Diff{What: "created outside the target directory: " + p, Real: realv, Model: "nothing outside t/"})
		}
	}
	if (cls == "invalidname" || cls == "invalidpath") && len(created) > 0 && !c.Massive {
		d = append(d, Diff{What: "a tree with an invalid name was rejected but entries were created: " + strings.Join(created, " "), Real: realv, Model: "nothing created"})
	}
	if c.Dry && len(created) > 0 {
		d = append(d, Diff{What: "dry run created entries: " + strings.Join(created, " "), Real: realv, Model: "nothing created"})
	}
	return d
}

func runC08(ctx *Ctx) *Report {
	rep := NewReport("C08")
	n := 4
	if ctx.Thorough {
		n = 5
	}
	forests := forestsUpTo(n, []string{"a", "b"})
	var cases []Case
	i := 0
	for _, f := range forests {
		paths, leaf := nodePaths(f)
		// merged duplicates give duplicate paths: dedupe
		seen := map[string]bool{}
		var up []string
		for _, p := range paths {
			if !seen[p] {
				seen[p] = true
				up = append(up, p)
			}
		}
		doc := spell(f, plainSpelling)
		nsub := 1 << len(up)
		step := 1
		if !ctx.Thorough && nsub > 8 {
			step = nsub / 8
		}
		for mask := 0; mask < nsub; mask += step {
			var pre []FSEntry
			pre = append(pre, FSEntry{"t", "d"})
			for bi, p := range up {
				if mask&(1<<bi) != 0 {
					kind := "d"
					if leaf[p] && (mask+bi)%3 == 0 {
						kind = "f0"
					}
					pre = append(pre, FSEntry{"t/" + p, kind})
				}
			}
			// extras at several depths
			switch i % 4 {
			case 1:
				pre = append(pre, FSEntry{"t/" + up[0] + "/extra", "d"})
			case 2:
				pre = append(pre, FSEntry{"t/" + up[len(up)-1] + "/deep/extra.txt", "f1"})
			case 3:
				pre = append(pre, FSEntry{"t/unrelated", "d"})
			}
			i++
			for _, strict := range []bool{false, true} {
				c := newCase("verify")
				c.Doc, c.DocText, c.Target, c.Strict, c.Pre, c.Tree = hx(doc), docText(doc), "t", strict, pre, encForest(f)
				cases = append(cases, c)
				if len(f) == 1 && i%3 == 0 {
					c2 := c
					c2.FromRoot, c2.Tree, c2.Alias = true, f[0].Enc(), i%2 == 0
					cases = append(cases, c2)
				}
				if len(f) == 1 {
					// one root: the massive mode has one block, its report is the simple mode's
					c3 := c
					c3.Massive = true
					cases = append(cases, c3)
					c3.FromRoot, c3.Tree = true, f[0].Enc()
					cases = append(cases, c3)
				}
			}
		}
	}
	// sibling names where one is the other plus a suffix that sorts before '/', extras that sort last;
	// names that end in blanks (the listed paths are the node paths, byte for byte)
	for fi, f := range [][]*Tree{
		{{Name: "r", Kids: []*Tree{{Name: "cmd", Kids: []*Tree{{Name: "a"}}}, {Name: "cmd.md"}, {Name: "lib"}, {Name: "lib-old", Kids: []*Tree{{Name: "x"}}}}}},
		{{Name: "a", Kids: []*Tree{{Name: "b"}}}, {Name: "a b", Kids: []*Tree{{Name: "c"}}}, {Name: "a!"}},
		{{Name: "r", Kids: []*Tree{{Name: "cmd", Kids: []*Tree{{Name: "a"}}}, {Name: "cmd.md"}}}},
		{{Name: "r", Kids: []*Tree{{Name: "a", Kids: []*Tree{{Name: "b"}}}, {Name: "a b"}, {Name: "a!"}, {Name: "a-x", Kids: []*Tree{{Name: "y"}}}}}},
		{{Name: "r ", Kids: []*Tree{{Name: "k\u3000"}, {Name: "m\t", Kids: []*Tree{{Name: "z "}}}}}},
		{{Name: "t\u00a0", Kids: []*Tree{{Name: "u "}}}},
	} {
		doc := spell(f, plainSpelling)
		paths, _ := nodePaths(f)
		for mi := 0; mi < 6; mi++ {
			pre := []FSEntry{{"t", "d"}}
			for pi, p := range paths {
				if (pi+mi)%3 != 0 || mi == 5 {
					pre = append(pre, FSEntry{"t/" + p, "d"})
				}
			}
			switch mi % 3 {
			case 0:
				pre = append(pre, FSEntry{"t/" + paths[0] + "/zzz", "f1"}, FSEntry{"t/" + paths[0] + "/~last", "d"})
				if len(paths) > 1 {
					pre = append(pre, FSEntry{"t/" + paths[1] + "/zzz", "f1"}, FSEntry{"t/" + paths[1] + "/~", "d"})
				}
			case 1:
				pre = append(pre, FSEntry{"t/" + paths[0] + "/!first", "f1"})
			}
			for _, strict := range []bool{false, true} {
				c := newCase("verify")
				c.Doc, c.DocText, c.Target, c.Strict, c.Pre, c.Tree, c.Note = hx(doc), docText(doc), "t", strict, pre, encForest(f), "names:"+fmtInt(fi)
				cases = append(cases, c)
				if len(f) == 1 {
					c.Massive = true
					cases = append(cases, c)
				}
			}
		}
	}
	cases = append(cases, randFSCases(ctx, rep, pick(ctx.Thorough, 6000, 500), "verify", false)...)
	parallel(cases, ctx.Workers, func(m *Model, c Case) {
		diffs, realv := runCaseR(m, c)
		rep.Record(c, caseKey(c), len(c.Pre) >= 3, diffs)
		rep.Count("result:" + resultClass(realv) + ifs(c.Strict, "/strict", ""))
	})
	// the same root object verified (or created) under one target directory and then under another one: an
	// ancestor of the first ("out/stage", then "out"), a descendant, a sibling whose name begins alike, an unrelated
	// one. What a call leaves on the nodes must not decide where the next call looks.
	{
		pool := []string{"out/stage", "out", "out/stage/deeper", "elsewhere", "out/stage2", "o"}
		ancestors := map[string][]string{"out/stage": {"out"}, "out/stage/deeper": {"out/stage", "out"}, "out/stage2": {"out"}}
		ops := []string{"verify", "verify-strict", "verify", "mkdir"}
		var rts []retargetCase
		for k := 0; k < pick(ctx.Thorough, 5000, 400); k++ {
			f := randForest(ctx.Rng, 1+ctx.Rng.Intn(7), []string{"plain"}, 1, rep.Dist)
			paths, _ := nodePaths([]*Tree{addMirror(f[0])})
			c := retargetCase{Kind: "retarget", Tree: f[0].Enc(), Massive: ctx.Rng.Intn(2) == 0, Alias: ctx.Rng.Intn(4) == 0}
			// what the directories hold: per target nothing, the directory only, the whole tree, the tree without one
			// node, the tree and something more
			have := map[string]bool{}
			add := func(p, kind string) {
				els := strings.Split(p, "/")
				for i := 1; i < len(els); i++ {
					if a := strings.Join(els[:i], "/"); !have[a] {
						have[a] = true
						c.Pre = append(c.Pre, FSEntry{a, "d"})
					}
				}
				if !have[p] {
					have[p] = true
					c.Pre = append(c.Pre, FSEntry{p, kind})
				}
			}
			for _, tg := range pool {
				switch ctx.Rng.Intn(6) {
				case 0:
				case 1:
					add(tg, "d")
				case 2, 3:
					for _, p := range paths {
						add(tg+"/"+p, "d")
					}
				case 4:
					skip := ctx.Rng.Intn(len(paths))
					for _, p := range paths {
						if p != paths[skip] && !strings.HasPrefix(p, paths[skip]+"/") {
							add(tg+"/"+p, "d")
						}
					}
				case 5:
					for _, p := range paths {
						add(tg+"/"+p, "d")
					}
					add(tg+"/"+paths[ctx.Rng.Intn(len(paths))]+"/zz-extra", []string{"d", "f1"}[ctx.Rng.Intn(2)])
				}
			}
			first := pool[ctx.Rng.Intn(len(pool))]
			if ctx.Rng.Intn(2) == 0 {
				first = []string{"out/stage", "out/stage/deeper", "out/stage2"}[ctx.Rng.Intn(3)]
			}
			c.Steps = append(c.Steps, rtStep{ops[ctx.Rng.Intn(len(ops))], first})
			for j, n := 0, 1+ctx.Rng.Intn(3); j < n; j++ {
				tg := pool[ctx.Rng.Intn(len(pool))]
				if as := ancestors[c.Steps[len(c.Steps)-1].Target]; len(as) > 0 && ctx.Rng.Intn(3) != 0 {
					tg = as[ctx.Rng.Intn(len(as))]
				}
				c.Steps = append(c.Steps, rtStep{ops[ctx.Rng.Intn(len(ops))], tg})
			}
			rts = append(rts, c)
		}
		// the plain history of somebody who stages a site and publishes it
		for _, massive := range []bool{false, true} {
			rts = append(rts, retargetCase{Kind: "retarget", Tree: (&Tree{Name: "site", Kids: []*Tree{{Name: "css", Kids: []*Tree{{Name: "main"}}}, {Name: "img"}}}).Enc(), Massive: massive,
				Pre:   []FSEntry{{"out", "d"}},
				Steps: []rtStep{{"verify", "out"}, {"mkdir", "out/stage"}, {"verify-strict", "out/stage"}, {"verify", "elsewhere"}, {"verify", "out/stage"}, {"verify", "out"}, {"mkdir", "out"}, {"verify-strict", "out"}}})
		}
		parallel(rts, ctx.Workers, func(m *Model, c retargetCase) {
			diffs := runRetarget(m, c)
			b, _ := json.Marshal(c)
			rep.Record(c, string(b), len(c.Steps) >= 2, diffs)
			rep.Count("retarget" + ifs(c.Massive, "/massive", ""))
		})
	}
	// a root that is a symbolic link: to a directory that matches (verifies), to nothing (every path is missing)
	{
		doc := []byte("- r\n  - a\n    - b.go\n  - c\n")
		for li, tc := range []struct {
			pre  []FSEntry
			want string
		}{
			{[]FSEntry{{"real/r/a/b.go", "f0"}, {"real/r/c", "d"}, {"t", "d"}, {"t/r", "l:real/r"}}, "nil"},
			{[]FSEntry{{"t", "d"}, {"t/r", "l:nowhere/r"}}, "missing"},
			{[]FSEntry{{"real/r/a", "d"}, {"t", "d"}, {"t/r", "l:real/r"}}, "missing"},
			{[]FSEntry{{"real/t/r/a/b.go", "f0"}, {"real/t/r/c", "d"}, {"t", "l:real/t"}}, "nil"},
		} {
			for _, strict := range []bool{false, true} {
				for _, massive := range []bool{false, true} {
					jail := newJail()
					populate(jail, tc.pre)
					o := []gtree.Option{gtree.WithTargetDir(filepath.Join(jail, "t"))}
					if strict {
						o = append(o, gtree.WithStrictVerify())
					}
					if massive {
						o = append(o, gtree.WithMassive(context.Background()))
					}
					err := gtree.VerifyFromMarkdown(bytes.NewReader(doc), o...)
					got := "nil"
					if err != nil {
						got = "missing"
						if !strings.Contains(err.Error(), "not exist") {
							got = "other:" + err.Error()
						}
					}
					var diffs []Diff
					if got != tc.want {
						diffs = append(diffs, Diff{What: "verify through a symbolic link", Real: got + " (" + fmt.Sprint(err) + ")", Model: tc.want})
					}
					rep.Record(map[string]any{"kind": "verify-symlink", "case": li, "strict": strict, "massive": massive}, "symlink:"+fmtInt(li)+b01(strict)+b01(massive), true, diffs)
					rep.Count("verify-symlink")
					os.RemoveAll(jail)
				}
			}
		}
	}
	// relation: a tree just created by Mkdir with any extension list verifies strictly (real code only)
	type mv struct {
		Kind string   `json:"kind"`
		Doc  string   `json:"doc_hex"`
		Exts []string `json:"exts"`
	}
	var rels []Case
	mf := forestsUpTo(n, []string{"a", "b.go", "Makefile"})
	for k, f := range mf {
		if !distinctRoots(f) {
			continue
		}
		doc := spell(f, plainSpelling)
		c := newCase("mkdir-then-verify")
		c.Doc, c.DocText, c.Exts, c.Target = hx(doc), docText(doc), extLists[k%len(extLists)], "t"
		rels = append(rels, c)
	}
	for _, name := range []string{"deep", "wide", "many-roots"} {
		doc := spell(bigShapes()[name], plainSpelling)
		c := newCase("mkdir-then-verify")
		c.Doc, c.DocText, c.Exts, c.Target = hx(doc), "<"+name+">", []string{".go"}, "t"
		rels = append(rels, c)
	}
	parallel(rels, ctx.Workers, func(m *Model, c Case) {
		diffs := runMkdirThenVerify(c)
		rep.Record(c, caseKey(c), len(c.Doc) > 24, diffs)
		rep.Count("rel:mkdir-then-verify")
	})
	// many roots verified at once with the massive option: a directory that matches verifies (strictly too),
	// one missing leaf is reported – the roots are independent of each other
	{
		var many []*Tree
		for i := 0; i < 40; i++ {
			t := &Tree{Name: "r" + fmtInt(i)}
			for j := 0; j < 30; j++ {
				t.Kids = append(t.Kids, &Tree{Name: "k" + fmtInt(j), Kids: []*Tree{{Name: "leaf"}}})
			}
			many = append(many, t)
		}
		doc := spell(many, plainSpelling)
		jail := newJail()
		target := filepath.Join(jail, "t")
		var diffs []Diff
		if err := gtree.MkdirFromMarkdown(bytes.NewReader(doc), gtree.WithTargetDir(target)); err != nil {
			diffs = append(diffs, Diff{What: "mkdir of 40 roots failed", Real: classify(err), Model: "nil"})
		}
		for r := 0; r < 4 && len(diffs) == 0; r++ {
			opts := []gtree.Option{gtree.WithTargetDir(target), gtree.WithMassive(context.Background())}
			if r%2 == 1 {
				opts = append(opts, gtree.WithStrictVerify())
			}
			if err := gtree.VerifyFromMarkdown(bytes.NewReader(doc), opts...); err != nil {
				diffs = append(diffs, Diff{What: "massive verify of a matching directory (40 roots)", Real: classify(err)[:min(len(classify(err)), 300)], Model: "nil"})
			}
		}
		os.RemoveAll(filepath.Join(target, "r17", "k3", "leaf"))
		if err := gtree.VerifyFromMarkdown(bytes.NewReader(doc), gtree.WithTargetDir(target), gtree.WithMassive(context.Background())); err == nil {
			diffs = append(diffs, Diff{What: "massive verify with one leaf missing (40 roots)", Real: "nil", Model: "an error listing r17/k3/leaf"})
		}
		os.RemoveAll(jail)
		rep.Record(map[string]string{"kind": "massive-verify-many-roots"}, "massive-verify-many", true, diffs)
		rep.Count("massive-verify/many-roots")
	}
	return rep
}

func runC09(ctx *Ctx) *Report {
	rep := NewReport("C09")
	n := 4
	if ctx.Thorough {
		n = 5
	}
	forests := forestsUpTo(n, []string{"a", "b.go", "Makefile"})
	var cases []Case
	var rels []Case
	for i, f := range forests {
		doc := spell(f, plainSpelling)
		exts := extLists[i%len(extLists)]
		c := newCase("out")
		c.Mode, c.Doc, c.DocText, c.Exts, c.Tree = "iter-dry", hx(doc), docText(doc), exts, encForest(f)
		cases = append(cases, c)
		c2 := newCase("mkdir")
		c2.Doc, c2.DocText, c2.Exts, c2.Target, c2.Dry, c2.Pre, c2.Tree = hx(doc), docText(doc), exts, "t", true, []FSEntry{{"t", "d"}, {"t/keep", "f1"}}, encForest(f)
		cases = append(cases, c2)
		if len(f) == 1 {
			c3 := c2
			c3.FromRoot, c3.Tree = true, f[0].Enc()
			cases = append(cases, c3)
		}
		if i%3 == 0 {
			// a target directory that does not exist: a dry run must not create it either
			c4 := c2
			c4.Target, c4.Pre = "missing/t", nil
			cases = append(cases, c4)
			if len(f) == 1 {
				c5 := c4
				c5.FromRoot, c5.Tree = true, f[0].Enc()
				cases = append(cases, c5)
			}
		}
		// dry run together with an encoding option, before and after it in the option list, through every name of
		// the entry point (and, below, in both modes): still a dry run – nothing created, the report of dry run alone
		{
			combo := i % 12
			c6 := c2
			c6.Stray, c6.StrayLast, c6.Alias = []string{"json", "yaml", "toml"}[combo%3], (combo/3)%2 == 0, combo/6 == 1
			if i%5 == 0 {
				c6.Target, c6.Pre = "missing/t", nil
			}
			cases = append(cases, c6)
			if len(f) == 1 {
				c7 := c6
				c7.FromRoot, c7.Tree = true, f[0].Enc()
				c7.Stray = []string{"json", "yaml", "toml"}[(combo+1)%3]
				cases = append(cases, c7)
			}
		}
		if distinctRoots(f) {
			r := newCase("dry-predicts-real")
			r.Doc, r.DocText, r.Exts, r.Target, r.Tree = hx(doc), docText(doc), exts, "t", encForest(f)
			if i%8 == 0 {
				r.Note = "cli"
			}
			rels = append(rels, r)
		}
	}
	for _, name := range []string{"deep", "wide", "many-roots", "long-names"} {
		f := bigShapes()[name]
		doc := spell(f, plainSpelling)
		c := newCase("out")
		c.Mode, c.Doc, c.DocText, c.Exts, c.Tree = "iter-dry", hx(doc), "<"+name+">", []string{".go"}, ""
		cases = append(cases, c)
		if name != "long-names" {
			r := newCase("dry-predicts-real")
			r.Doc, r.DocText, r.Exts, r.Target = hx(doc), "<"+name+">", []string{".go"}, "t"
			rels = append(rels, r)
		}
	}
	// hostile names: dry run rejects iff the real run rejects because of names
	for k := 0; k < 300 || (ctx.Thorough && k < 5000); k++ {
		f := randForest(ctx.Rng, 1+ctx.Rng.Intn(8), []string{"plain", "path", "quotes", "unicode"}, 2, rep.Dist)
		if !representable(f, plainSpelling) || !distinctRoots(f) {
			continue
		}
		doc := spell(f, plainSpelling)
		r := newCase("dry-predicts-real")
		r.Doc, r.DocText, r.Exts, r.Target, r.Tree = hx(doc), docText(doc), extLists[k%len(extLists)], "t", encForest(f)
		if k%10 == 0 {
			r.Note = "cli"
		}
		rels = append(rels, r)
		c := newCase("out")
		c.Mode, c.Doc, c.DocText, c.Exts, c.Tree = "iter-dry", hx(doc), docText(doc), r.Exts, encForest(f)
		cases = append(cases, c)
	}
	parallel(cases, ctx.Workers, func(m *Model, c Case) {
		diffs, realv := runCaseR(m, c)
		if c.Kind == "mkdir" {
			diffs = append(diffs, confinement(c, realv)...)
		}
		rep.Record(c, caseKey(c), nonTrivialEnc(c.Tree) || len(c.Doc) > 30, diffs)
		rep.Count("kind:" + c.Kind + "/" + resultClass(realv))
		if c.Kind == "mkdir" && c.Dry && c.Stray != "" {
			rep.Count("dry-run mkdir with an encoding option " + ifs(c.StrayLast, "after", "before") + " WithDryRun: " + ifs(c.FromRoot, ifs(c.Alias, "MkdirProgrammably", "MkdirFromRoot"), ifs(c.Alias, "Mkdir", "MkdirFromMarkdown")) + "/" + c.Stray)
		}
	})
	var mdry []Case
	for i, c := range cases {
		if c.Kind == "mkdir" && (i%2 == 0 || ctx.Thorough || (c.StrayLast && i%3 != 0)) {
			mc := c
			mc.Kind, mc.Massive = "massive-mkdir", true
			mdry = append(mdry, mc)
		}
	}
	parallel(mdry, ctx.Workers/2+1, func(m *Model, c Case) {
		diffs := runMassiveMkdir(c)
		rep.Record(c, caseKey(c), len(c.Doc) > 24 || c.FromRoot, diffs)
		rep.Count("massive-mkdir-dry" + ifs(c.FromRoot, "/root", "") + ifs(c.Alias, "/alias", "") + ifs(c.Stray != "", "/encoding option "+ifs(c.StrayLast, "after", "before")+" WithDryRun", ""))
	})
	parallel(rels, ctx.Workers, func(m *Model, c Case) {
		diffs := runDryPredictsReal(c)
		rep.Record(c, caseKey(c), len(c.Doc) > 24, diffs)
		rep.Count("rel:dry-predicts-real")
	})
	return rep
}

// ---------------------------------------------------------------- a tree that was used before, then Mkdir (C07)

type reuseCase struct {
	Kind    string   `json:"kind"`
	Tree    string   `json:"tree"`
	First   string   `json:"earlier_operations"` // comma-separated, run on the same root object before Mkdir
	Massive bool     `json:"massive,omitempty"`
	Alias   bool     `json:"alias,omitempty"`
	Exts    []string `json:"exts,omitempty"`
	Hostile string   `json:"hostile,omitempty"`
}

func init() {
	replayers["reuse-mkdir"] = func(m *Model, raw json.RawMessage) []Diff {
		var c reuseCase
		json.Unmarshal(raw, &c)
		d, _ := runReuseMkdir(m, c)
		return d
	}
}

// earlierUse runs one operation on the root and throws its result away.
func earlierUse(root *gtree.Node, op string, target string) {
	nop := func(*gtree.WalkerNode) error { return nil }
	var sink lockedBuf
	switch op {
	case "output":
		gtree.OutputFromRoot(&sink, root)
	case "output-alias":
		gtree.OutputProgrammably(&sink, root)
	case "output-fmt":
		gtree.OutputFromRoot(&sink, root, fmtOpts(fmtCustom)...)
	case "output-massive":
		gtree.OutputFromRoot(&sink, root, gtree.WithMassive(context.Background()))
		sink.finish()
	case "json":
		gtree.OutputFromRoot(&sink, root, gtree.WithEncodeJSON())
	case "walk":
		gtree.WalkFromRoot(root, nop)
	case "walk-alias":
		gtree.WalkProgrammably(root, nop)
	case "walk-massive":
		gtree.WalkFromRoot(root, nop, gtree.WithMassive(context.Background()))
	case "walkiter":
		for _, err := range gtree.WalkIterFromRoot(root) {
			if err != nil {
				break
			}
		}
	case "walkiter-break":
		k := 0
		for range gtree.WalkIterFromRoot(root) {
			if k++; k == 2 {
				break
			}
		}
	case "output+walk":
		gtree.OutputFromRoot(&sink, root)
		gtree.WalkFromRoot(root, nop)
	case "dry-rejected":
		colorOutMu.Lock()
		old := colorOutput()
		setColorOutput(&lockedBuf{})
		gtree.MkdirFromRoot(root, gtree.WithTargetDir(target), gtree.WithDryRun())
		setColorOutput(old)
		colorOutMu.Unlock()
	case "verify":
		gtree.VerifyFromRoot(root, gtree.WithTargetDir(target))
	}
}

// runReuseMkdir: Mkdir of a root object that earlier operations have already grown does what the model says for
// the tree (the model knows nothing of earlier calls): same error, same file system; with the massive option the
// same verdict about the names and nothing outside the target directory.
func runReuseMkdir(m *Model, c reuseCase) ([]Diff, string) {
	t := parseTreeEnc(c.Tree)
	root := buildRoot(t)
	jail := newJail()
	defer os.RemoveAll(jail)
	populate(jail, []FSEntry{{"x", "d"}, {"x/t", "d"}, {"x/sib", "d"}, {"x/sib/secret", "f5"}, {"keep", "f2"}, {"escaped-guard", "d"}})
	target := filepath.Join(jail, "x", "t")
	for _, op := range strings.Split(c.First, ",") {
		earlierUse(root, op, target)
	}
	before := snapshot(jail)
	opts := []gtree.Option{gtree.WithTargetDir(target), gtree.WithFileExtensions(c.Exts)}
	if c.Massive {
		opts = append(opts, gtree.WithMassive(context.Background()))
	}
	var err error
	if c.Alias {
		err = gtree.MkdirProgrammably(root, opts...)
	} else {
		err = gtree.MkdirFromRoot(root, opts...)
	}
	if c.Massive {
		time.Sleep(5 * time.Millisecond)
	}
	after := snapshot(jail)
	resp := m.Ask("mkdirroot " + fmtDefault.enc() + " " + hxList(c.Exts) + " " + hxs(target) + " 0 " + encFS(jail, before) + " " + addMirror(t).Enc())
	modelv := resp
	if strings.HasPrefix(resp, "fs=") {
		parts := strings.SplitN(resp, " ", 2)
		modelv = "fs=" + stripAmbient(jail, strings.TrimPrefix(parts[0], "fs=")) + " " + parts[1]
	}
	realv := "fs=" + strings.Join(after, ",") + " w=- e=" + classify(err)
	var d []Diff
	what := "mkdir of a root that has been through: " + c.First
	if !c.Massive {
		d = append(d, cmp(what, realv, modelv)...)
	} else {
		if a, b := errClass(classify(err)), resultClass(modelv); a != b && !(strings.HasPrefix(a, "os") && strings.HasPrefix(b, "os")) {
			d = append(d, Diff{What: what + " (massive option: the error class)", Real: realv, Model: modelv})
		}
	}
	// nothing outside the target directory, whatever happened
	had := map[string]bool{}
	for _, e := range before {
		had[e] = true
	}
	now := map[string]bool{}
	for _, e := range after {
		now[e] = true
		pth := string(unhx(strings.SplitN(e, ":", 2)[0]))
		if !had[e] && !strings.HasPrefix(pth, target+"/") {
			d = append(d, Diff{What: what + ": something was created or changed outside the target directory", Real: pth, Model: "inside " + target})
		}
	}
	for _, e := range before {
		if !now[e] {
			d = append(d, Diff{What: what + ": something that existed before is gone or changed", Real: string(unhx(strings.SplitN(e, ":", 2)[0])), Model: "untouched"})
		}
	}
	return d, resultClass(modelv)
}

// ---------------------------------------------------------------- one root object, several target directories (C08)

type rtStep struct {
	Op     string `json:"op"` // verify | verify-strict | mkdir
	Target string `json:"target"`
}

type retargetCase struct {
	Kind    string    `json:"kind"`
	Tree    string    `json:"tree"`
	Steps   []rtStep  `json:"steps"`
	Massive bool      `json:"massive,omitempty"`
	Alias   bool      `json:"alias,omitempty"`
	Pre     []FSEntry `json:"pre,omitempty"`
}

func init() {
	replayers["retarget"] = func(m *Model, raw json.RawMessage) []Diff {
		var c retargetCase
		json.Unmarshal(raw, &c)
		return runRetarget(m, c)
	}
}

// runRetarget: the same root object goes through Verify / Mkdir calls with different target directories (a
// directory, then its ancestor, a descendant, an unrelated one). Every verdict is the model's for the tree, the
// target directory of that call and the file system as it is at that moment, and it is the verdict a fresh tree of
// the same shape gets.
func runRetarget(m *Model, c retargetCase) []Diff {
	t := parseTreeEnc(c.Tree)
	root := buildRoot(t)
	jail := newJail()
	defer os.RemoveAll(jail)
	populate(jail, c.Pre)
	var d []Diff
	for si, st := range c.Steps {
		target := filepath.Join(jail, st.Target)
		before := snapshot(jail)
		opts := []gtree.Option{gtree.WithTargetDir(target)}
		if c.Massive {
			opts = append(opts, gtree.WithMassive(context.Background()))
		}
		what := fmt.Sprintf("step %d (%s in %s) on a root that has been through %d earlier calls", si, st.Op, st.Target, si)
		switch st.Op {
		case "verify", "verify-strict":
			strict := st.Op == "verify-strict"
			if strict {
				opts = append(opts, gtree.WithStrictVerify())
			}
			var err error
			if c.Alias {
				err = gtree.VerifyProgrammably(root, opts...)
			} else {
				err = gtree.VerifyFromRoot(root, opts...)
			}
			fresh := gtree.VerifyFromRoot(buildRoot(t), opts...)
			modelv := m.Ask("verifyroot " + hxs(target) + " " + b01(strict) + " " + encFS(jail, before) + " " + addMirror(t).Enc())
			d = append(d, cmp(what+": verdict vs model", "e="+classify(err), modelv)...)
			d = append(d, cmp(what+": verdict vs a fresh tree of the same shape", "e="+classify(err), "e="+classify(fresh))...)
			if after := snapshot(jail); strings.Join(after, ",") != strings.Join(before, ",") {
				d = append(d, Diff{What: what + ": verify changed the file system", Real: strings.Join(after, ","), Model: strings.Join(before, ",")})
			}
		case "mkdir":
			var err error
			if c.Alias {
				err = gtree.MkdirProgrammably(root, opts...)
			} else {
				err = gtree.MkdirFromRoot(root, opts...)
			}
			if c.Massive {
				time.Sleep(3 * time.Millisecond)
			}
			after := snapshot(jail)
			resp := m.Ask("mkdirroot " + fmtDefault.enc() + " _ " + hxs(target) + " 0 " + encFS(jail, before) + " " + addMirror(t).Enc())
			modelv := resp
			if strings.HasPrefix(resp, "fs=") {
				parts := strings.SplitN(resp, " ", 2)
				modelv = "fs=" + stripAmbient(jail, strings.TrimPrefix(parts[0], "fs=")) + " " + parts[1]
			}
			d = append(d, cmp(what+": result vs model", "fs="+strings.Join(after, ",")+" w=- e="+classify(err), modelv)...)
		}
		if len(d) > 0 {
			break
		}
	}
	return d
}
