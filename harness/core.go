package main

import (
	"bufio"
	"encoding/hex"
	"encoding/json"
	"fmt"
	"io"
	"os"
	"os/exec"
	"sort"
	"strings"
	"sync"
)

// ---------- model client (line protocol to the compiled Lean driver) ----------

type Model struct {
	cmd *exec.Cmd
	in  *bufio.Writer
	out *bufio.Reader
	mu  sync.Mutex
}

var modelPath = "/verif/lean/.lake/build/bin/gtree_model"

func NewModel() *Model {
	cmd := exec.Command(modelPath)
	stdin, err := cmd.StdinPipe()
	if err != nil {
		panic(err)
	}
	stdout, err := cmd.StdoutPipe()
	if err != nil {
		panic(err)
	}
	cmd.Stderr = os.Stderr
	if err := cmd.Start(); err != nil {
		panic(fmt.Sprintf("cannot start model driver %s: %v", modelPath, err))
	}
	return &Model{cmd: cmd, in: bufio.NewWriterSize(stdin, 1<<20), out: bufio.NewReaderSize(stdout, 1<<20)}
}

func (m *Model) Ask(line string) string {
	m.mu.Lock()
	defer m.mu.Unlock()
	m.in.WriteString(line)
	m.in.WriteByte('\n')
	m.in.Flush()
	resp, err := m.out.ReadString('\n')
	if err != nil {
		return "model-died:" + err.Error()
	}
	return strings.TrimRight(resp, "\n")
}

func (m *Model) Close() {
	m.in.Flush()
	if c, ok := m.cmd.Stdin.(io.Closer); ok {
		c.Close()
	}
	m.cmd.Process.Kill()
	m.cmd.Wait()
}

// ---------- hex helpers ----------

func hx(b []byte) string {
	if len(b) == 0 {
		return "-"
	}
	return hex.EncodeToString(b)
}
func hxs(s string) string { return hx([]byte(s)) }
func hxList(l []string) string {
	if len(l) == 0 {
		return "_"
	}
	out := make([]string, len(l))
	for i, s := range l {
		out[i] = hxs(s)
	}
	return strings.Join(out, ",")
}
func unhx(s string) []byte {
	if s == "-" || s == "" {
		return nil
	}
	b, err := hex.DecodeString(s)
	if err != nil {
		panic("bad hex " + s)
	}
	return b
}
func optN(n int) string {
	if n < 0 {
		return "n"
	}
	return fmt.Sprint(n)
}
func b01(b bool) string {
	if b {
		return "1"
	}
	return "0"
}
func sortedHex(l []string) string {
	h := make([]string, len(l))
	for i, s := range l {
		h[i] = hxs(s)
	}
	sort.Strings(h)
	return strings.Join(h, ",")
}

// ---------- trees ----------

type Tree struct {
	Name string
	Kids []*Tree
}

func (t *Tree) Size() int {
	n := 1
	for _, k := range t.Kids {
		n += k.Size()
	}
	return n
}
func (t *Tree) Depth() int {
	d := 0
	for _, k := range t.Kids {
		if kd := k.Depth(); kd > d {
			d = kd
		}
	}
	return d + 1
}
func (t *Tree) Enc() string {
	var sb strings.Builder
	var rec func(*Tree)
	rec = func(n *Tree) {
		sb.WriteByte('(')
		sb.WriteString(hxs(n.Name))
		for _, k := range n.Kids {
			rec(k)
		}
		sb.WriteByte(')')
	}
	rec(t)
	return sb.String()
}
func encForest(f []*Tree) string {
	var sb strings.Builder
	for _, t := range f {
		sb.WriteString(t.Enc())
	}
	if sb.Len() == 0 {
		return "_"
	}
	return sb.String()
}

// hasDupSiblings reports whether some parent has two children with the same name.
func (t *Tree) hasDupSiblings() bool {
	seen := map[string]bool{}
	for _, k := range t.Kids {
		if seen[k.Name] {
			return true
		}
		seen[k.Name] = true
		if k.hasDupSiblings() {
			return true
		}
	}
	return false
}

// nonTrivialShape: ≥3 levels and some non-last node with descendants (where a wrong 'last' shows).
func nonTrivialForest(f []*Tree) bool {
	for _, t := range f {
		if t.Depth() >= 3 {
			var rec func(n *Tree) bool
			rec = func(n *Tree) bool {
				for i, k := range n.Kids {
					if i < len(n.Kids)-1 && len(k.Kids) > 0 {
						return true
					}
					if rec(k) {
						return true
					}
				}
				return false
			}
			if rec(t) {
				return true
			}
		}
	}
	return false
}

// enumForests calls fn for every ordered forest with exactly n nodes over the alphabet.
func enumForests(n int, alphabet []string, fn func([]*Tree)) {
	// a forest with n nodes = first tree with k nodes (root + forest of k-1) and a forest of n-k
	var forests func(n int) [][]*Tree
	memo := map[int][][]*Tree{}
	forests = func(n int) [][]*Tree {
		if n == 0 {
			return [][]*Tree{nil}
		}
		if r, ok := memo[n]; ok {
			return r
		}
		var res [][]*Tree
		for k := 1; k <= n; k++ {
			for _, kids := range forests(k - 1) {
				for _, rest := range forests(n - k) {
					for _, name := range alphabet {
						t := &Tree{Name: name, Kids: kids}
						f := append([]*Tree{t}, rest...)
						res = append(res, f)
					}
				}
			}
		}
		memo[n] = res
		return res
	}
	for _, f := range forests(n) {
		fn(f)
	}
}

// ---------- spellings ----------

type Spelling struct {
	IndentChar byte   `json:"indent_char"` // ' ' or '\t'
	Unit       int    `json:"unit"`
	Bullets    string `json:"bullets"`     // cycled per item line, from "-*+"
	Sharp      bool   `json:"sharp"`       // roots as "# name"
	BlankEvery int    `json:"blank_every"` // insert a blank row before every k-th row (0: none)
	BlankRow   string `json:"blank_row"`
	CRLF       bool   `json:"crlf"`
	FinalNL    bool   `json:"final_nl"`
	LeadBlank  bool   `json:"lead_blank"`
	NoSpace    bool   `json:"no_space_after_bullet,omitempty"` // "-name" instead of "- name" (the parser only trims an optional space)
}

var plainSpelling = Spelling{IndentChar: ' ', Unit: 2, Bullets: "-", FinalNL: true}

func spell(f []*Tree, s Spelling) []byte {
	var rows []string
	i := 0
	var rec func(t *Tree, depth int)
	rec = func(t *Tree, depth int) {
		b := s.Bullets[i%len(s.Bullets)]
		i++
		gap := " "
		if s.NoSpace {
			gap = ""
		}
		if s.Sharp {
			if depth == 0 {
				rows = append(rows, "#"+gap+t.Name)
			} else {
				rows = append(rows, strings.Repeat(string(s.IndentChar), (depth-1)*s.Unit)+string(b)+gap+t.Name)
			}
		} else {
			rows = append(rows, strings.Repeat(string(s.IndentChar), depth*s.Unit)+string(b)+gap+t.Name)
		}
		for _, k := range t.Kids {
			rec(k, depth+1)
		}
	}
	for _, t := range f {
		rec(t, 0)
	}
	var out []string
	if s.LeadBlank {
		out = append(out, s.BlankRow)
	}
	for j, r := range rows {
		if s.BlankEvery > 0 && j > 0 && j%s.BlankEvery == 0 {
			out = append(out, s.BlankRow)
		}
		out = append(out, r)
	}
	nl := "\n"
	if s.CRLF {
		nl = "\r\n"
	}
	doc := strings.Join(out, nl)
	if s.FinalNL && len(out) > 0 {
		doc += nl
	}
	return []byte(doc)
}

// representable: names that survive the spelling (see DESIGN §3.3 Spelling.Valid)
func representable(f []*Tree, s Spelling) bool {
	ok := true
	var rec func(t *Tree, depth int)
	rec = func(t *Tree, depth int) {
		n := t.Name
		if n == "" || strings.ContainsAny(n, "\n") || strings.HasSuffix(n, "\r") {
			ok = false
		}
		if s.Sharp && depth == 0 {
			if strings.HasPrefix(n, " ") || strings.HasSuffix(n, " ") || (s.NoSpace && strings.HasPrefix(n, "#")) {
				ok = false
			}
		}
		if s.NoSpace && strings.HasPrefix(n, " ") {
			ok = false
		}
		if isBlankGo(n) && !(s.Sharp && depth == 0) {
			// "- " + blank name is fine for the list parser unless the whole row is blank (never: it has a bullet)
		}
		for _, k := range t.Kids {
			rec(k, depth+1)
		}
	}
	for _, t := range f {
		rec(t, 0)
	}
	return ok
}

func isBlankGo(s string) bool { return len(strings.TrimSpace(s)) == 0 }

// ---------- formats ----------

type Fmt4 [4]string // lastD, lastI, midD, midI

var fmtDefault = Fmt4{"└──", "    ", "├──", "│   "}
var fmtCustom = Fmt4{"+->", ":   ", "+--", ":   "}
var fmtEmpty = Fmt4{"", "", "", ""}
var fmtMulti = Fmt4{"終", "　", "中", "｜"}
var fmtLookalike = Fmt4{"- a", "  ", "* b", "# "}
var fmtPercent = Fmt4{"%d", "%s ", "100%", "%%v"}

func (f Fmt4) enc() string { return hxList(f[:]) }

// ---------- result accounting ----------

type Violation struct {
	Property string          `json:"property"`
	Case     json.RawMessage `json:"case"`
	Diffs    []Diff          `json:"diffs"`
	Note     string          `json:"note,omitempty"`
}
type Diff struct {
	What  string `json:"what"`
	Real  string `json:"real"`
	Model string `json:"model"`
}

type Report struct {
	mu          sync.Mutex
	Property    string
	Evaluations int
	distinct    map[string]struct{}
	Samples     []json.RawMessage
	Violations  []Violation
	Dist        map[string]int
	Known       map[string]int // known-finding id -> hits
	Exhaustive  bool
	Notes       []string
}

func NewReport(prop string) *Report {
	return &Report{Property: prop, distinct: map[string]struct{}{}, Dist: map[string]int{}, Known: map[string]int{}}
}

func (r *Report) Count(key string) {
	r.mu.Lock()
	r.Dist[key]++
	r.mu.Unlock()
}

// Record one evaluated case. key: canonical identity of the case; nontrivial per the property's rule.
func (r *Report) Record(c any, key string, nontrivial bool, diffs []Diff) {
	r.mu.Lock()
	defer r.mu.Unlock()
	r.Evaluations++
	if nontrivial {
		r.distinct[key] = struct{}{}
	}
	if len(r.Samples) < 5 && (nontrivial || r.Evaluations < 3) {
		b, _ := json.Marshal(c)
		r.Samples = append(r.Samples, b)
	}
	if len(diffs) > 0 && len(r.Violations) < 20 {
		b, _ := json.Marshal(c)
		r.Violations = append(r.Violations, Violation{Property: r.Property, Case: b, Diffs: diffs})
	}
}

func cmp(what, realv, modelv string) []Diff {
	if realv == modelv || tolerantEq(realv, modelv) {
		return nil
	}
	return []Diff{{What: what, Real: realv, Model: modelv}}
}

// tolerantEq: the properties pin that an error is returned and, for a format / name error, that it
// identifies the offending row / name – not the wording of the message. If the real error has a
// wording this harness does not know ("other:<msg>") it is accepted when the model expects an error
// of a class whose payload (if any) occurs in the message. Everything before " e=" must be equal.
func tolerantEq(realv, modelv string) bool {
	ri, mi := strings.LastIndex(realv, " e="), strings.LastIndex(modelv, " e=")
	if ri < 0 || mi < 0 || realv[:ri] != modelv[:mi] {
		if !(strings.HasPrefix(realv, "e=") && strings.HasPrefix(modelv, "e=")) {
			return false
		}
		ri, mi = -1, -1
	}
	re, me := realv[ri+3:], modelv[mi+3:]
	if ri < 0 {
		re, me = realv[2:], modelv[2:]
	}
	if !strings.HasPrefix(re, "other:") {
		return false
	}
	msg := strings.TrimPrefix(re, "other:")
	switch {
	case me == "emptytext", me == "nilstack":
		return true
	case strings.HasPrefix(me, "format:"), strings.HasPrefix(me, "invalidname:"), strings.HasPrefix(me, "invalidpath:"):
		payload := string(unhx(me[strings.IndexByte(me, ':')+1:]))
		return strings.Contains(msg, payload)
	}
	return false
}

// Full: enough violations have been collected; runners stop early (a broken tree can make every
// massive-mode case wait for its deadline)
func (r *Report) Full() bool {
	r.mu.Lock()
	defer r.mu.Unlock()
	return len(r.Violations) >= 10
}

// parallel map over cases
func parallel[C any](cases []C, workers int, fn func(m *Model, c C)) {
	if cs, ok := any(cases).([]Case); ok {
		cases = any(strayAll(cs)).([]C)
	}
	ch := make(chan C, 256)
	var wg sync.WaitGroup
	for w := 0; w < workers; w++ {
		wg.Add(1)
		go func() {
			defer wg.Done()
			m := NewModel()
			defer m.Close()
			for c := range ch {
				fn(m, c)
			}
		}()
	}
	for i, c := range cases {
		if i%400 == 399 {
			otherUses()
		}
		ch <- c
	}
	close(ch)
	wg.Wait()
}
