package main

import (
	"bytes"
	"context"
	"encoding/json"
	"os"
	"path/filepath"
	"strings"

	"github.com/ddddddO/gtree"
)

// C03: programmatically built trees behave like the equivalent Markdown; Add of an existing name
// returns the existing child; nil / non-root nodes are rejected with the sentinels; aliases agree.

func init() {
	props["c03"] = runC03
	replayers["c03-rel"] = func(m *Model, raw json.RawMessage) []Diff {
		var c relC03
		json.Unmarshal(raw, &c)
		return runRelC03(m, c)
	}
}

// an Add program: (parent index into the list of created nodes, name); node 0 is the root
type addOp struct {
	Parent int    `json:"p"`
	Name   string `json:"n"`
}

type relC03 struct {
	Kind string   `json:"kind"`
	Root string   `json:"root"`
	Ops  []addOp  `json:"ops"`
	Fmt  Fmt4     `json:"fmt"`
	Exts []string `json:"exts,omitempty"`
	Sp   Spelling `json:"spelling"`
}

// build runs the Add program on the real API and on a mirror Tree.
func (c relC03) build() (*gtree.Node, *Tree, []Diff) {
	root := gtree.NewRoot(c.Root)
	mirror := &Tree{Name: c.Root}
	nodes := []*gtree.Node{root}
	mnodes := []*Tree{mirror}
	var diffs []Diff
	for _, op := range c.Ops {
		p, mp := nodes[op.Parent%len(nodes)], mnodes[op.Parent%len(mnodes)]
		child := p.Add(op.Name)
		var mchild *Tree
		existing := -1
		for i, k := range mp.Kids {
			if k.Name == op.Name {
				mchild = k
				existing = i
				break
			}
		}
		if mchild == nil {
			mchild = &Tree{Name: op.Name}
			mp.Kids = append(mp.Kids, mchild)
		}
		// Add of an existing name returns the existing child (same pointer as before)
		idx := -1
		for i, n := range nodes {
			if n == child {
				idx = i
			}
		}
		if existing >= 0 {
			midx := -1
			for i, mn := range mnodes {
				if mn == mchild {
					midx = i
				}
			}
			if idx != midx {
				diffs = append(diffs, Diff{What: "Add(" + op.Name + ") of an existing name did not return the existing child"})
			}
		} else if idx >= 0 {
			diffs = append(diffs, Diff{What: "Add(" + op.Name + ") of a new name returned an existing node"})
		}
		if idx < 0 {
			nodes = append(nodes, child)
			mnodes = append(mnodes, mchild)
		}
	}
	return root, mirror, diffs
}

func runRelC03(m *Model, c relC03) []Diff {
	root, mirror, diffs := c.build()
	doc := spell([]*Tree{mirror}, c.Sp)
	fo := fmtOpts(c.Fmt)
	// text
	var b1, b2 bytes.Buffer
	e1 := gtree.OutputFromRoot(&b1, root, fo...)
	e2 := gtree.OutputFromMarkdown(&b2, bytes.NewReader(doc), fo...)
	diffs = append(diffs, cmp("text: From-Root vs From-Markdown", "w="+hx(b1.Bytes())+" e="+classify(e1), "w="+hx(b2.Bytes())+" e="+classify(e2))...)
	diffs = append(diffs, cmp("text: From-Root vs model", "w="+hx(b1.Bytes())+" e="+classify(e1), m.Ask("rootout "+c.Fmt.enc()+" n 0 "+mirror.Enc()))...)
	// repeat: a second identical call gives the same bytes
	var b3 bytes.Buffer
	e3 := gtree.OutputFromRoot(&b3, root, fo...)
	diffs = append(diffs, cmp("text: repeated From-Root call", "w="+hx(b3.Bytes())+" e="+classify(e3), "w="+hx(b1.Bytes())+" e="+classify(e1))...)
	// encodings
	for _, format := range []string{"json", "yaml", "toml"} {
		var f1, f2 bytes.Buffer
		e1 := gtree.OutputFromRoot(&f1, root, encodeOpt(format))
		e2 := gtree.OutputFromMarkdown(&f2, bytes.NewReader(doc), encodeOpt(format))
		diffs = append(diffs, cmp(format+": From-Root vs From-Markdown", hx(f1.Bytes())+" e="+classify(e1), hx(f2.Bytes())+" e="+classify(e2))...)
	}
	// walk
	walkOf := func(run func(cb func(*gtree.WalkerNode) error) error) string {
		var vs []string
		err := run(func(wn *gtree.WalkerNode) error { vs = append(vs, showVisit(wn)); return nil })
		return "v=" + showVisits(vs) + " e=" + classify(err)
	}
	w1 := walkOf(func(cb func(*gtree.WalkerNode) error) error { return gtree.WalkFromRoot(root, cb, fo...) })
	w2 := walkOf(func(cb func(*gtree.WalkerNode) error) error {
		return gtree.WalkFromMarkdown(bytes.NewReader(doc), cb, fo...)
	})
	diffs = append(diffs, cmp("walk: From-Root vs From-Markdown", w1, w2)...)
	var vs []string
	var ierr error
	for wn, err := range gtree.WalkIterFromRoot(root, fo...) {
		if err != nil {
			ierr = err
			break
		}
		vs = append(vs, showVisit(wn))
	}
	diffs = append(diffs, cmp("walk: iterator vs callback", "v="+showVisits(vs)+" e="+classify(ierr), w1)...)
	// the nodes a walk handed out keep telling the truth while the same root goes through other operations: a caller
	// that kept its *WalkerNode pointers reads them after a text output (both names, every output path), an encoded
	// output and another walk of the same root; and a callback that prints the tree from inside the walk still reads
	// its own node right.  The Markdown counterpart builds a tree per call, so its walk (w2) is the reference.
	{
		var kept []*gtree.WalkerNode
		gtree.WalkFromRoot(root, func(wn *gtree.WalkerNode) error { kept = append(kept, wn); return nil }, fo...)
		reread := func() string {
			var vs []string
			for _, wn := range kept {
				vs = append(vs, showVisit(wn))
			}
			return "v=" + showVisits(vs) + " e=nil"
		}
		if e := classify(gtree.WalkFromRoot(root, func(*gtree.WalkerNode) error { return nil }, fo...)); e == "nil" {
			var sink bytes.Buffer
			for _, step := range []struct {
				what string
				run  func()
			}{
				{"OutputFromRoot", func() { gtree.OutputFromRoot(&sink, root, fo...) }},
				{"OutputProgrammably", func() { gtree.OutputProgrammably(&sink, root, fo...) }},
				{"OutputFromRoot without the iterator", func() {
					gtree.OutputFromRoot(&sink, root, append(append([]gtree.Option{}, fo...), gtree.WithNoUseIterOfSimpleOutput())...)
				}},
				{"OutputFromRoot as JSON", func() {
					gtree.OutputFromRoot(&sink, root, append(append([]gtree.Option{}, fo...), gtree.WithEncodeJSON())...)
				}},
				{"a second WalkFromRoot", func() { gtree.WalkFromRoot(root, func(*gtree.WalkerNode) error { return nil }, fo...) }},
				{"WalkIterFromRoot", func() {
					for range gtree.WalkIterFromRoot(root, fo...) {
					}
				}},
			} {
				step.run()
				diffs = append(diffs, cmp("walker nodes kept from WalkFromRoot, read after "+step.what+" on the same root, vs the Markdown walk", reread(), w2)...)
			}
			inside := walkOf(func(cb func(*gtree.WalkerNode) error) error {
				return gtree.WalkFromRoot(root, func(wn *gtree.WalkerNode) error {
					gtree.OutputFromRoot(&sink, root, fo...)
					return cb(wn)
				}, fo...)
			})
			diffs = append(diffs, cmp("walk whose callback prints the same root (OutputFromRoot) before it reads its node, vs the Markdown walk", inside, w2)...)
		}
	}
	// mkdir + verify in jails
	j1, j2 := newJail(), newJail()
	defer os.RemoveAll(j1)
	defer os.RemoveAll(j2)
	t1, t2 := filepath.Join(j1, "t"), filepath.Join(j2, "t")
	m1 := gtree.MkdirFromRoot(root, gtree.WithTargetDir(t1), gtree.WithFileExtensions(c.Exts))
	m2 := gtree.MkdirFromMarkdown(bytes.NewReader(doc), gtree.WithTargetDir(t2), gtree.WithFileExtensions(c.Exts))
	rel := func(j string, snap []string) string {
		out := make([]string, len(snap))
		for i, s := range snap {
			parts := strings.SplitN(s, ":", 2)
			out[i] = hxs(strings.TrimPrefix(string(unhx(parts[0])), j)) + ":" + parts[1]
		}
		return strings.Join(out, ",")
	}
	diffs = append(diffs, cmp("mkdir: From-Root vs From-Markdown", rel(j1, snapshot(j1))+" e="+classify(m1), rel(j2, snapshot(j2))+" e="+classify(m2))...)
	// Mkdir is an observer like the others: the tree the caller built is, after it, still the tree the Markdown
	// spells – through every From-Root operation (a second observer sees what the call did to the nodes)
	wantText := m.Ask("rootout " + c.Fmt.enc() + " n 0 " + mirror.Enc())
	mdView := c03View(nil, doc, fo, c.Exts)
	secondLook := func(after string) {
		if len(diffs) > 0 {
			return
		}
		rv := c03View(root, nil, fo, c.Exts)
		for i := range rv {
			diffs = append(diffs, cmp("after "+after+" on the same tree, "+c03ViewNames[i]+": From-Root vs From-Markdown", rv[i], mdView[i])...)
		}
		diffs = append(diffs, cmp("after "+after+" on the same tree, text: From-Root vs model", rv[0], wantText)...)
	}
	secondLook("MkdirFromRoot")
	if c.Exts != nil {
		j5 := newJail()
		m5 := gtree.MkdirProgrammably(root, gtree.WithTargetDir(filepath.Join(j5, "t")), gtree.WithFileExtensions(c.Exts))
		diffs = append(diffs, cmp("mkdir: MkdirProgrammably vs From-Markdown", rel(j5, snapshot(j5))+" e="+classify(m5), rel(j2, snapshot(j2))+" e="+classify(m2))...)
		os.RemoveAll(j5)
		secondLook("MkdirProgrammably")
	}
	// a context that is already cancelled: both names of the From-Root entry point and the From-Markdown
	// counterpart report it alike (text output, massive option)
	{
		cctx, cancel := context.WithCancel(context.Background())
		cancel()
		var c1, c2, c3 bytes.Buffer
		ce1 := gtree.OutputFromRoot(&c1, root, append(fo, gtree.WithMassive(cctx))...)
		ce2 := gtree.OutputProgrammably(&c2, root, append(fo, gtree.WithMassive(cctx))...)
		ce3 := gtree.OutputFromMarkdown(&c3, bytes.NewReader(doc), append(fo, gtree.WithMassive(cctx))...)
		diffs = append(diffs, cmp("text+massive(cancelled ctx): OutputFromRoot vs OutputProgrammably (error class)", errClass(classify(ce1)), errClass(classify(ce2)))...)
		diffs = append(diffs, cmp("text+massive(cancelled ctx): From-Root vs From-Markdown (error class)", errClass(classify(ce1)), errClass(classify(ce3)))...)
	}
	// the same with the massive option (accepted by both API families): same verdict about the names
	j3, j4 := newJail(), newJail()
	defer os.RemoveAll(j3)
	defer os.RemoveAll(j4)
	mctx := gtree.WithMassive(context.Background())
	m3 := gtree.MkdirFromRoot(root, gtree.WithTargetDir(filepath.Join(j3, "t")), gtree.WithFileExtensions(c.Exts), mctx)
	m4 := gtree.MkdirFromMarkdown(bytes.NewReader(doc), gtree.WithTargetDir(filepath.Join(j4, "t")), gtree.WithFileExtensions(c.Exts), mctx)
	diffs = append(diffs, cmp("mkdir+massive: From-Root vs From-Markdown (error class)", errClass(classify(m3)), errClass(classify(m4)))...)
	if m3 == nil && m4 == nil {
		diffs = append(diffs, cmp("mkdir+massive: From-Root vs From-Markdown", rel(j3, snapshot(j3)), rel(j4, snapshot(j4)))...)
	}
	secondLook("MkdirFromRoot with the massive option")
	// the root is already there in the target directory (as a directory with something in it, as a file): both
	// API families judge the names first and the existing root second, create nothing, and say the same
	for vi, pre := range [][]FSEntry{{{"t", "d"}, {"t/" + c.Root, "d"}, {"t/" + c.Root + "/old", "f1"}}, {{"t", "d"}, {"t/" + c.Root, "f3"}}} {
		if (len(c.Ops)+vi)%2 == 0 && len(c.Ops) > 3 {
			continue // every program gets one of the two states, short ones both
		}
		type run struct {
			what    string
			massive bool
			call    func(opts ...gtree.Option) error
		}
		runs := []run{
			{"MkdirFromMarkdown", false, func(o ...gtree.Option) error { return gtree.MkdirFromMarkdown(bytes.NewReader(doc), o...) }},
			{"MkdirFromRoot", false, func(o ...gtree.Option) error { return gtree.MkdirFromRoot(root, o...) }},
			{"MkdirProgrammably", false, func(o ...gtree.Option) error { return gtree.MkdirProgrammably(root, o...) }},
			{"MkdirFromMarkdown+massive", true, func(o ...gtree.Option) error { return gtree.MkdirFromMarkdown(bytes.NewReader(doc), o...) }},
			{"MkdirFromRoot+massive", true, func(o ...gtree.Option) error { return gtree.MkdirFromRoot(root, o...) }},
			{"MkdirProgrammably+massive", true, func(o ...gtree.Option) error { return gtree.MkdirProgrammably(root, o...) }},
		}
		var ref string
		for ri, r := range runs {
			j := newJail()
			populate(j, pre)
			before := rel(j, snapshot(j))
			o := []gtree.Option{gtree.WithTargetDir(filepath.Join(j, "t")), gtree.WithFileExtensions(c.Exts)}
			if r.massive {
				o = append(o, gtree.WithMassive(context.Background()))
			}
			err := r.call(o...)
			got := rel(j, snapshot(j)) + " e=" + classify(err)
			if r.massive {
				got = rel(j, snapshot(j)) + " e=" + errClass(classify(err))
			}
			if ri == 0 {
				ref = got
				// the Markdown counterpart itself: nothing is created when the root exists, and the model agrees
				diffs = append(diffs, cmp("mkdir with the root already there: From-Markdown creates nothing", strings.SplitN(got, " e=", 2)[0], before)...)
				mc := newCase("mkdir")
				mc.FromRoot, mc.Tree, mc.Exts, mc.Target, mc.Pre = true, mirror.Enc(), c.Exts, "t", pre
				md, _ := runMkdir(m, mc)
				diffs = append(diffs, md...)
			} else {
				want := ref
				if r.massive {
					want = strings.SplitN(ref, " e=", 2)[0] + " e=" + errClass(strings.SplitN(ref, " e=", 2)[1])
				}
				diffs = append(diffs, cmp("mkdir with the root already there: "+r.what+" vs MkdirFromMarkdown", got, want)...)
			}
			os.RemoveAll(j)
		}
	}
	v1 := gtree.VerifyFromRoot(root, gtree.WithTargetDir(t1), gtree.WithStrictVerify())
	v2 := gtree.VerifyFromMarkdown(bytes.NewReader(doc), gtree.WithTargetDir(t1), gtree.WithStrictVerify())
	diffs = append(diffs, cmp("verify: From-Root vs From-Markdown", classifyRel(v1, j1), classifyRel(v2, j1))...)
	return diffs
}

// c03View: what every From-Root operation (root != nil) or its From-Markdown counterpart gives for the tree as it is now:
// text with the case's branch strings, the three encodings, callback walk, iterator walk (the callback walk again
// for Markdown), and a Mkdir into a fresh directory followed by a strict Verify of that directory.
var c03ViewNames = []string{"text", "json", "yaml", "toml", "walk", "iterator walk", "mkdir into a fresh directory + strict verify"}

func c03View(root *gtree.Node, doc []byte, fo []gtree.Option, exts []string) []string {
	var out []string
	output := func(o ...gtree.Option) string {
		var b bytes.Buffer
		var err error
		if root != nil {
			err = gtree.OutputFromRoot(&b, root, o...)
		} else {
			err = gtree.OutputFromMarkdown(&b, bytes.NewReader(doc), o...)
		}
		return "w=" + hx(b.Bytes()) + " e=" + classify(err)
	}
	out = append(out, output(fo...))
	for _, format := range []string{"json", "yaml", "toml"} {
		out = append(out, output(encodeOpt(format)))
	}
	walk := func() string {
		var vs []string
		cb := func(wn *gtree.WalkerNode) error { vs = append(vs, showVisit(wn)); return nil }
		var err error
		if root != nil {
			err = gtree.WalkFromRoot(root, cb, fo...)
		} else {
			err = gtree.WalkFromMarkdown(bytes.NewReader(doc), cb, fo...)
		}
		return "v=" + showVisits(vs) + " e=" + classify(err)
	}
	out = append(out, walk())
	if root != nil {
		var vs []string
		var ierr error
		for wn, err := range gtree.WalkIterFromRoot(root, fo...) {
			if err != nil {
				ierr = err
				break
			}
			vs = append(vs, showVisit(wn))
		}
		out = append(out, "v="+showVisits(vs)+" e="+classify(ierr))
	} else {
		out = append(out, walk())
	}
	j := newJail()
	defer os.RemoveAll(j)
	o := []gtree.Option{gtree.WithTargetDir(filepath.Join(j, "t")), gtree.WithFileExtensions(exts)}
	var merr, verr error
	if root != nil {
		merr = gtree.MkdirFromRoot(root, o...)
		verr = gtree.VerifyFromRoot(root, gtree.WithTargetDir(filepath.Join(j, "t")), gtree.WithStrictVerify())
	} else {
		merr = gtree.MkdirFromMarkdown(bytes.NewReader(doc), o...)
		verr = gtree.VerifyFromMarkdown(bytes.NewReader(doc), gtree.WithTargetDir(filepath.Join(j, "t")), gtree.WithStrictVerify())
	}
	var snap []string
	for _, e := range snapshot(j) {
		parts := strings.SplitN(e, ":", 2)
		snap = append(snap, hxs(strings.TrimPrefix(string(unhx(parts[0])), j))+":"+parts[1])
	}
	out = append(out, strings.Join(snap, ",")+" mkdir e="+classify(merr)+" verify e="+classifyRel(verr, j))
	return out
}

// fileBeforeDirectory: under some parent a child that Mkdir makes as a file (a leaf whose name ends with one of the
// extensions) stands before a sibling that it makes as a directory.
func fileBeforeDirectory(t *Tree, exts []string) bool {
	isFile := func(k *Tree) bool {
		if len(k.Kids) > 0 {
			return false
		}
		for _, e := range exts {
			if strings.HasSuffix(k.Name, e) {
				return true
			}
		}
		return false
	}
	seenFile := false
	for _, k := range t.Kids {
		if isFile(k) {
			seenFile = true
		} else if seenFile {
			return true
		}
	}
	for _, k := range t.Kids {
		if fileBeforeDirectory(k, exts) {
			return true
		}
	}
	return false
}

func classifyRel(err error, jail string) string {
	return strings.ReplaceAll(classify(err), hex0(jail), "")
}
func hex0(s string) string { return hxs(s) }

func runC03(ctx *Ctx) *Report {
	rep := NewReport("C03")
	// 1. plain differential cases on enumerated trees
	n := 5
	if ctx.Thorough {
		n = 6
	}
	var cases []Case
	formats := allFormats()
	i := 0
	for k := 0; k < n; k++ {
		var kidsets [][]*Tree
		if k == 0 {
			kidsets = [][]*Tree{nil}
		} else {
			enumForests(k, []string{"a", "b"}, func(f []*Tree) { kidsets = append(kidsets, f) })
		}
		for _, kids := range kidsets {
			t := &Tree{Name: "r", Kids: kids}
			enc := t.Enc()
			fm := formats[i%len(formats)]
			i++
			for _, alias := range []bool{false, true} {
				c := newCase("rootout")
				c.Tree, c.Fmt, c.Alias = enc, fm, alias
				cases = append(cases, c)
				// a writer that fails at its k-th call (or accepts fewer bytes): the From-Root function reports
				// it like its From-Markdown counterpart, and nothing more is written
				c.WFail = i % (t.Size() + 1)
				if i%3 == 0 {
					c.Short = 1
				}
				cases = append(cases, c)
				c = newCase("rootwalk")
				c.Tree, c.Fmt, c.Alias = enc, fm, alias
				cases = append(cases, c)
				c = newCase("rootiter")
				c.Tree, c.Fmt, c.Alias = enc, fm, alias
				cases = append(cases, c)
				c.Massive = true
				cases = append(cases, c)
				c.Massive, c.Busy = false, true
				cases = append(cases, c)
				c = newCase("rootf")
				c.Tree, c.Format, c.Alias = enc, []string{"json", "yaml", "toml"}[i%3], alias
				cases = append(cases, c)
				// mkdir / verify through both names of the From-Root entry point, with the options they take
				// (target directory, extensions, strict): pre-populated so that the options matter
				c = newCase("mkdir")
				c.FromRoot, c.Tree, c.Alias, c.Target, c.Exts = true, enc, alias, "sub/t", []string{".go", "b"}
				c.Dry = i%5 == 0
				cases = append(cases, c)
				c = newCase("verify")
				c.FromRoot, c.Tree, c.Alias, c.Target, c.Strict = true, enc, alias, "t", i%2 == 0
				c.Pre = []FSEntry{{Path: "t", Kind: "d"}, {Path: "t/r", Kind: "d"}, {Path: "t/r/a", Kind: "d"}, {Path: "t/r/zz-extra", Kind: "f1"}, {Path: "r", Kind: "d"}, {Path: "r/a", Kind: "d"}, {Path: "r/b", Kind: "d"}}
				cases = append(cases, c)
			}
		}
	}
	// large single-root shapes under every branch format
	for _, name := range []string{"deep", "wide", "long-names"} {
		t := bigShapes()[name][0]
		for fi, fm := range formats {
			c := newCase("rootout")
			c.Tree, c.Fmt, c.Alias, c.Note = t.Enc(), fm, fi%2 == 0, "big:"+name
			cases = append(cases, c)
			if fi%4 == 0 {
				c = newCase("rootwalk")
				c.Tree, c.Fmt, c.Note = t.Enc(), fm, "big:"+name
				cases = append(cases, c)
				c = newCase("rootiter")
				c.Tree, c.Fmt, c.Note = t.Enc(), fm, "big:"+name
				cases = append(cases, c)
				c = newCase("rootf")
				c.Tree, c.Format, c.Note = t.Enc(), []string{"json", "yaml", "toml"}[fi%3], "big:"+name
				cases = append(cases, c)
			}
		}
	}
	runCases(rep, cases, ctx.Workers, func(c Case) bool { return c.Note != "" || nonTrivialEnc(c.Tree) })
	// 2. Add programs: both API families on the real code, in every order incl. repeated Adds
	var rels []relC03
	nprog := 1500
	if ctx.Thorough {
		nprog = 30000
	}
	names := []string{"a", "b", "c", "x.go", "- d", "e f", "a", "b", "..", "x/y", "A", "X.go", "a ", " a", "b\t", " e f "}
	spellings := coveringSpellings()
	for k := 0; k < nprog; k++ {
		c := relC03{Kind: "c03-rel", Root: "root", Fmt: formats[k%len(formats)], Sp: spellings[k%len(spellings)]}
		if k%4 == 0 {
			c.Exts = []string{".go"}
		}
		nops := 1 + ctx.Rng.Intn(9)
		for j := 0; j < nops; j++ {
			c.Ops = append(c.Ops, addOp{Parent: ctx.Rng.Intn(j + 1), Name: names[ctx.Rng.Intn(len(names))]})
			if strings.HasPrefix(c.Ops[j].Name, " ") {
				c.Sp.NoSpace = false // "-" + " a" would spell the name "a"
			}
		}
		rels = append(rels, c)
	}
	// wide parents: many distinct children under one node, then Adds of names that exist already (early,
	// middle, late ones) with a grandchild hung under what Add returned
	var widths []int
	for w := 1; w <= 70; w++ {
		widths = append(widths, w)
	}
	widths = append(widths, 127, 128, 129, 130, 255, 256, 257)
	for wi, width := range widths {
		for _, again := range []int{0, width / 2, width - 2, width - 1} {
			if again < 0 || (width > 70 && again != width-1 && again != 0) || (width <= 70 && wi%3 != 0 && again != width-1) {
				continue
			}
			c := relC03{Kind: "c03-rel", Root: "root", Fmt: formats[wi%len(formats)], Sp: spellings[(wi+again)%len(spellings)]}
			par := 0
			if wi%2 == 1 {
				c.Ops = append(c.Ops, addOp{Parent: 0, Name: "deep"})
				par = 1
			}
			for j := 0; j < width; j++ {
				c.Ops = append(c.Ops, addOp{Parent: par, Name: "k" + fmtInt(j)})
			}
			c.Ops = append(c.Ops, addOp{Parent: par, Name: "k" + fmtInt(again)})
			c.Ops = append(c.Ops, addOp{Parent: par + 1 + again, Name: "under"})
			c.Ops = append(c.Ops, addOp{Parent: par, Name: "k" + fmtInt(again)})
			rels = append(rels, c)
		}
	}
	// sibling orders in which files (leaves with one of the extensions) and directories alternate, at several depths:
	// what Mkdir does with them (which come first, how often the parent is made) must not show in the caller's tree
	mixed := []string{"x.go", "README.md", "Makefile", "cmd", "docs", "b", "X.go", "lib"}
	mixedExts := [][]string{{".go", ".md", "Makefile"}, {".go"}, {".md", ".go", ".go"}, {"Makefile", ".md"}}
	for k := 0; k < pickInt(ctx.Thorough, 4000, 300); k++ {
		c := relC03{Kind: "c03-rel", Root: "root", Fmt: formats[k%len(formats)], Sp: spellings[k%len(spellings)], Exts: mixedExts[ctx.Rng.Intn(len(mixedExts))]}
		par := 0
		for d := ctx.Rng.Intn(3); d > 0; d-- {
			c.Ops = append(c.Ops, addOp{Parent: par, Name: "lvl"})
			par = len(c.Ops)
		}
		perm := ctx.Rng.Perm(len(mixed))[:2+ctx.Rng.Intn(5)]
		first := len(c.Ops) + 1
		for _, pi := range perm {
			c.Ops = append(c.Ops, addOp{Parent: par, Name: mixed[pi]})
		}
		// some of the siblings get children (then they are directories whatever their name), one gets a file below
		for j := range perm {
			if ctx.Rng.Intn(3) == 0 {
				c.Ops = append(c.Ops, addOp{Parent: first + j, Name: mixed[ctx.Rng.Intn(len(mixed))]})
			}
		}
		if ctx.Rng.Intn(2) == 0 {
			c.Ops = append(c.Ops, addOp{Parent: 0, Name: "main.go"}, addOp{Parent: 0, Name: "zz"})
		}
		rels = append(rels, c)
	}
	parallel(rels, ctx.Workers, func(m *Model, c relC03) {
		diffs := runRelC03(m, c)
		if _, mirror, _ := c.build(); c.Exts != nil {
			rep.Count("addprog:mkdir then a second observer, a file before a directory sibling=" + b01(fileBeforeDirectory(mirror, c.Exts)))
		}
		b, _ := json.Marshal(c)
		dup := false
		seen := map[string]bool{}
		for _, op := range c.Ops {
			k := fmtInt(op.Parent) + "/" + op.Name
			if seen[k] {
				dup = true
			}
			seen[k] = true
		}
		rep.Record(c, string(b), len(c.Ops) >= 3, diffs)
		rep.Count("addprog:repeated-add=" + b01(dup))
	})
	// 3. sentinels
	m := NewModel()
	defer m.Close()
	for _, d := range sentinelChecks() {
		rep.Record(map[string]string{"kind": "sentinel", "what": d.what}, "sentinel:"+d.what, true, d.diffs)
	}
	return rep
}

type sentinelResult struct {
	what  string
	diffs []Diff
}

func sentinelChecks() []sentinelResult {
	var out []sentinelResult
	root := gtree.NewRoot("r")
	child := root.Add("c")
	jail := newJail()
	defer os.RemoveAll(jail)
	before := strings.Join(snapshot(jail), ",")
	type call struct {
		name string
		fn   func(n *gtree.Node, w *bytes.Buffer) error
	}
	cb := func(*gtree.WalkerNode) error { return errCallback } // must never be called
	calls := []call{
		{"OutputFromRoot", func(n *gtree.Node, w *bytes.Buffer) error { return gtree.OutputFromRoot(w, n) }},
		{"OutputProgrammably", func(n *gtree.Node, w *bytes.Buffer) error { return gtree.OutputProgrammably(w, n) }},
		{"OutputFromRoot/json", func(n *gtree.Node, w *bytes.Buffer) error { return gtree.OutputFromRoot(w, n, gtree.WithEncodeJSON()) }},
		{"MkdirFromRoot", func(n *gtree.Node, w *bytes.Buffer) error { return gtree.MkdirFromRoot(n, gtree.WithTargetDir(jail)) }},
		{"MkdirProgrammably", func(n *gtree.Node, w *bytes.Buffer) error {
			return gtree.MkdirProgrammably(n, gtree.WithTargetDir(jail))
		}},
		{"MkdirFromRoot/dry", func(n *gtree.Node, w *bytes.Buffer) error {
			return gtree.MkdirFromRoot(n, gtree.WithTargetDir(jail), gtree.WithDryRun())
		}},
		{"VerifyFromRoot", func(n *gtree.Node, w *bytes.Buffer) error { return gtree.VerifyFromRoot(n, gtree.WithTargetDir(jail)) }},
		{"VerifyProgrammably", func(n *gtree.Node, w *bytes.Buffer) error {
			return gtree.VerifyProgrammably(n, gtree.WithTargetDir(jail))
		}},
		{"WalkFromRoot", func(n *gtree.Node, w *bytes.Buffer) error { return gtree.WalkFromRoot(n, cb) }},
		{"WalkProgrammably", func(n *gtree.Node, w *bytes.Buffer) error { return gtree.WalkProgrammably(n, cb) }},
		{"WalkIterFromRoot", func(n *gtree.Node, w *bytes.Buffer) error {
			for wn, err := range gtree.WalkIterFromRoot(n) {
				if err != nil {
					return err
				}
				_ = wn
				return errCallback
			}
			return nil
		}},
		{"WalkIterProgrammably", func(n *gtree.Node, w *bytes.Buffer) error {
			for wn, err := range gtree.WalkIterProgrammably(n) {
				if err != nil {
					return err
				}
				_ = wn
				return errCallback
			}
			return nil
		}},
	}
	for _, c := range calls {
		for _, arg := range []struct {
			label string
			n     *gtree.Node
			want  string
		}{{"nil", nil, "nilnode"}, {"non-root", child, "notroot"}} {
			var w bytes.Buffer
			err := c.fn(arg.n, &w)
			got := "w=" + hx(w.Bytes()) + " e=" + classify(err) + " fs=" + strings.Join(snapshot(jail), ",")
			want := "w=- e=" + arg.want + " fs=" + before
			out = append(out, sentinelResult{c.name + "(" + arg.label + ")", cmp("sentinel "+c.name+"("+arg.label+")", got, want)})
		}
	}
	return out
}
