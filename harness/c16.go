package main

import (
	"bytes"
	"context"
	"encoding/json"
	"fmt"
	"io"
	"os"
	"os/exec"
	"path/filepath"
	"strings"
	"time"

	"github.com/ddddddO/gtree"
	"github.com/fatih/color"
)

// C16: the CLI is a faithful front end with a truthful exit status. The binary is built from
// /repo/cmd/gtree on every run; its stdout / exit status / file-system effect are compared with the
// in-process library on the same options and with the exit-status table of the Lean CLI model.

func init() {
	props["c16"] = runC16
	replayers["cli"] = func(m *Model, raw json.RawMessage) []Diff {
		var c cliCase
		json.Unmarshal(raw, &c)
		return runCli(m, cliBinary(), c)
	}
}

type cliCase struct {
	Kind    string    `json:"kind"`
	Sub     string    `json:"sub"`
	Args    []string  `json:"args"`
	Doc     string    `json:"doc_hex"`
	Text    string    `json:"doc_text,omitempty"`
	ViaFile bool      `json:"via_file"`
	Stdout  string    `json:"stdout"` // pipe | closed | full
	Pre     []FSEntry `json:"pre,omitempty"`
	Expect  string    `json:"expect_stage,omitempty"`   // usage | opts | open ; empty: decided by the library
	FileAt  string    `json:"file_at,omitempty"`        // where (relative to the jail) the document is written; the --file argument is part of Args
	Decoy   string    `json:"decoy_at,omitempty"`       // another document, at the place a lexical clean of the --file argument would name
	SlowMS  int       `json:"stdin_delay_ms,omitempty"` // stdin delivers nothing for this long, then the document
}

// delayedReader delivers nothing for a while, then the data (somebody typing, a slow producer at the other end of the pipe).
type delayedReader struct {
	delay time.Duration
	r     io.Reader
	slept bool
}

func (d *delayedReader) Read(p []byte) (int, error) {
	if !d.slept {
		d.slept = true
		time.Sleep(d.delay)
	}
	return d.r.Read(p)
}

var cliBin string

func cliBinary() string {
	if cliBin != "" {
		return cliBin
	}
	out := filepath.Join(scratch(), "gtree-cli")
	cmd := exec.Command("go", "build", "-o", out, "./cmd/gtree")
	cmd.Dir = "/repo"
	if b, err := cmd.CombinedOutput(); err != nil {
		fmt.Fprintf(os.Stderr, "building cmd/gtree: %v\n%s", err, b)
		os.Exit(3)
	}
	cliBin = out
	return out
}

type cliRun struct {
	stdout, stderr []byte
	code           int
	crashed        bool
}

func execCli(bin string, dir string, args []string, stdin []byte, stdoutMode string) cliRun {
	return execCliSlow(bin, dir, args, stdin, stdoutMode, 0)
}

func execCliSlow(bin string, dir string, args []string, stdin []byte, stdoutMode string, stdinDelay time.Duration) cliRun {
	ctx, cancel := context.WithTimeout(context.Background(), 20*time.Second)
	defer cancel()
	var cmd *exec.Cmd
	switch stdoutMode {
	case "closed":
		quoted := make([]string, len(args))
		for i, a := range args {
			quoted[i] = "'" + strings.ReplaceAll(a, "'", `'\''`) + "'"
		}
		cmd = exec.CommandContext(ctx, "sh", "-c", "exec '"+bin+"' "+strings.Join(quoted, " ")+" >&-")
	default:
		cmd = exec.CommandContext(ctx, bin, args...)
	}
	cmd.Dir = dir
	cmd.Env = append(os.Environ(), "NO_COLOR=1")
	cmd.Stdin = bytes.NewReader(stdin)
	if stdinDelay > 0 {
		cmd.Stdin = &delayedReader{delay: stdinDelay, r: bytes.NewReader(stdin)}
	}
	var so, se bytes.Buffer
	cmd.Stderr = &se
	switch stdoutMode {
	case "full":
		f, err := os.OpenFile("/dev/full", os.O_WRONLY, 0)
		if err == nil {
			defer f.Close()
			cmd.Stdout = f
		}
	case "closed":
	default:
		cmd.Stdout = &so
	}
	err := cmd.Run()
	r := cliRun{stdout: so.Bytes(), stderr: se.Bytes()}
	if err != nil {
		if ee, ok := err.(*exec.ExitError); ok {
			r.code = ee.ExitCode()
			if r.code < 0 || bytes.Contains(se.Bytes(), []byte("goroutine ")) && bytes.Contains(se.Bytes(), []byte("panic")) {
				r.crashed = true
			}
		} else {
			r.code = -2
			r.crashed = true
		}
	}
	return r
}

func runCli(m *Model, bin string, c cliCase) []Diff {
	jail := newJail()
	defer os.RemoveAll(jail)
	populate(jail, c.Pre)
	doc := unhx(c.Doc)
	args := []string{c.Sub}
	args = append(args, c.Args...)
	var stdin []byte
	if c.FileAt != "" {
		os.WriteFile(filepath.Join(jail, c.FileAt), doc, 0o644)
		if c.Decoy != "" {
			os.WriteFile(filepath.Join(jail, c.Decoy), []byte("- decoy\n  - wrong\n    - file\n"), 0o644)
		}
	} else if c.ViaFile {
		p := filepath.Join(jail, "in.md")
		os.WriteFile(p, doc, 0o644)
		args = append(args, "--file", p)
	} else {
		stdin = doc
	}
	// the library, in process, on the corresponding options (in a twin jail)
	twin := newJail()
	defer os.RemoveAll(twin)
	populate(twin, c.Pre)
	if c.FileAt != "" {
		os.WriteFile(filepath.Join(twin, c.FileAt), doc, 0o644)
		if c.Decoy != "" {
			os.WriteFile(filepath.Join(twin, c.Decoy), []byte("- decoy\n  - wrong\n    - file\n"), 0o644)
		}
	}
	var opts []gtree.Option
	dry, strict := false, false
	target := ""
	var exts []string
	massive := false
	var timeout time.Duration
	format := ""
	for i := 0; i < len(c.Args); i++ {
		switch c.Args[i] {
		case "--format":
			format = c.Args[i+1]
			i++
		case "--massive", "-m":
			massive = true
		case "--massive-timeout", "--mt":
			massive = true // a (positive) timeout alone selects the massive mode
			// with or without --massive the corresponding library option is WithMassive(a context with this timeout)
			timeout, _ = time.ParseDuration(c.Args[i+1])
			i++
		case "--dry-run", "-d":
			dry = true
		case "--strict":
			strict = true
		case "-e", "--extension":
			exts = append(exts, c.Args[i+1])
			i++
		case "--target-dir":
			target = c.Args[i+1]
			i++
		}
	}
	r := execCliSlow(bin, jail, args, stdin, c.Stdout, time.Duration(c.SlowMS)*time.Millisecond)
	var d []Diff
	if r.crashed {
		return []Diff{{What: "the CLI crashed", Real: fmt.Sprintf("exit %d stderr %s", r.code, r.stderr), Model: "never a crash"}}
	}
	stage := c.Expect
	var libOut bytes.Buffer
	var libErr error
	if stage == "" {
		if massive {
			mctx := context.Background()
			if timeout > 0 {
				var cancel context.CancelFunc
				mctx, cancel = context.WithTimeout(mctx, timeout)
				defer cancel()
			}
			opts = append(opts, gtree.WithMassive(mctx))
		}
		switch c.Sub {
		case "output":
			if format != "" {
				opts = append(opts, encodeOpt(format))
			}
			var in io.Reader = bytes.NewReader(doc)
			if c.SlowMS > 0 {
				in = &delayedReader{delay: time.Duration(c.SlowMS) * time.Millisecond, r: bytes.NewReader(doc)}
			}
			libErr = gtree.OutputFromMarkdown(&libOut, in, opts...)
		case "mkdir":
			opts = append(opts, gtree.WithTargetDir(filepath.Join(twin, target)), gtree.WithFileExtensions(exts))
			if target == "" {
				opts[len(opts)-2] = gtree.WithTargetDir(twin)
			}
			if dry {
				colorOutMu.Lock()
				old := color.Output
				color.Output = &libOut
				libErr = gtree.OutputFromMarkdown(color.Output, bytes.NewReader(doc), append(opts, gtree.WithDryRun())...)
				color.Output = old
				colorOutMu.Unlock()
			} else {
				libErr = gtree.MkdirFromMarkdown(bytes.NewReader(doc), opts...)
			}
		case "verify":
			t := filepath.Join(twin, target)
			if target == "" {
				t = twin
			}
			if strings.HasPrefix(target, "/") {
				t = target // an absolute target is the same directory for the command line and for the library (verify only reads)
			}
			opts = append(opts, gtree.WithTargetDir(t))
			if strict {
				opts = append(opts, gtree.WithStrictVerify())
			}
			libErr = gtree.VerifyFromMarkdown(bytes.NewReader(doc), opts...)
		}
		stage = "ok"
		if libErr != nil {
			stage = "fail"
		}
		if c.Stdout == "full" && libOut.Len() > 0 && libErr == nil {
			stage = "fail" // the output cannot be written (ENOSPC). A stdout closed at start-up is /dev/null in a Go process: writes succeed.
		}
	}
	want := m.Ask("cli " + c.Sub + " " + b01(dry) + " " + stage)
	if fmt.Sprint(r.code) != want {
		d = append(d, Diff{What: "exit status (stage " + stage + ")", Real: fmt.Sprintf("%d (stderr: %s)", r.code, docText(r.stderr)), Model: want})
	}
	if (r.code == 0) != (stage == "ok") {
		d = append(d, Diff{What: "exit status 0 iff the operation succeeded", Real: fmt.Sprint(r.code), Model: stage})
	}
	if r.code != 0 && len(r.stderr) == 0 {
		d = append(d, Diff{What: "non-zero status without a diagnostic on stderr", Real: "empty stderr", Model: "diagnostic"})
	}
	if c.Expect == "" && c.Stdout == "pipe" {
		massiveText := massive && (c.Sub == "output" || dry)
		if !massiveText && !(massive && libErr != nil) {
			if !bytes.Equal(r.stdout, libOut.Bytes()) {
				d = append(d, Diff{What: "stdout differs from what the library writes for the corresponding options", Real: hx(r.stdout), Model: hx(libOut.Bytes())})
			}
		} else if libErr == nil && len(r.stdout) != libOut.Len() {
			d = append(d, Diff{What: "stdout length differs from the library's (massive: root order may differ)", Real: hx(r.stdout), Model: hx(libOut.Bytes())})
		}
		// same file-system effect (relative to the jail / twin)
		rel := func(j string) string {
			var out []string
			for _, e := range snapshot(j) {
				p := strings.SplitN(e, ":", 2)
				name := strings.TrimPrefix(string(unhx(p[0])), j)
				if name == "/in.md" {
					continue
				}
				out = append(out, name+":"+p[1])
			}
			return strings.Join(out, ",")
		}
		if !(massive && libErr != nil) && rel(jail) != rel(twin) {
			d = append(d, Diff{What: "file-system effect differs from the library's", Real: rel(jail), Model: rel(twin)})
		}
	}
	if len(d) > 0 && massive && c.Expect == "" {
		// The comparison takes the library's answer for the corresponding options as determined. With the massive
		// option it is not for three classes of documents (known findings of C10 / C02: the verdict depends on which
		// worker parses which block first), and the command-line process and this process need not meet the same
		// schedule. Such a document says nothing about the front end.
		simpleErr := gtree.OutputFromMarkdown(io.Discard, bytes.NewReader(doc))
		switch {
		case listRootBeforeHeading(doc):
			noteKnown("c10.list-roots-before-heading-roots")
			return nil
		case mixesIndentChars(doc):
			noteKnown("c10.indent-char-switch-between-roots")
			return nil
		case wrongCharRow(doc, simpleErr):
			noteKnown("c10.massive-accepts-wrong-indent-char")
			return nil
		}
	}
	return d
}

const sampleTree = "gtree\n├── cmd\n│   └── gtree\n│       └── main.go\n├── testdata\n│   ├── sample1.md\n│   └── sample2.md\n├── Makefile\n└── tree.go\n"

func runC16(ctx *Ctx) *Report {
	rep := NewReport("C16")
	bin := cliBinary()
	var cases []cliCase
	docs := []string{
		"- a\n  - b\n    - c.go\n  - d\n- e\n",
		"# r\n- a\n\t- b.md\n# s\n- c\n",
		"- a\n  - b\n      - deep\n",
		"- a\n  -\n",
		"  - orphan\n- a\n",
		"",
		"\n\n",
		"- a\n  - ..\n",
		"- a\n  - x/y\n",
		"* Makefile\n* src\n    * main.go\n    * lib\n",
		"- ok\n  - x\n- second\n  - y\n- bad\n      - deep\n- after\n",
		"- ok\n  - x.go\n- bad\n  -\n",
	}
	if ctx.Thorough {
		for _, f := range forestsUpTo(3, []string{"a", "b.go"}) {
			docs = append(docs, string(spell(f, coveringSpellings()[len(docs)%len(coveringSpellings())])))
		}
	}
	for di, doc := range docs {
		for _, viaFile := range []bool{false, true} {
			if viaFile && di%2 == 1 && !ctx.Thorough {
				continue
			}
			// output
			for _, fa := range [][]string{nil, {"--format", "json"}, {"--format", "yaml"}, {"--format", "toml"}, {"--massive"}, {"--massive", "--format", "json"}} {
				for _, so := range []string{"pipe", "closed", "full"} {
					if so != "pipe" && (len(fa) > 2 || viaFile) {
						continue
					}
					cases = append(cases, cliCase{Kind: "cli", Sub: "output", Args: fa, Doc: hxs(doc), Text: doc, ViaFile: viaFile, Stdout: so})
				}
			}
			// mkdir
			for _, ma := range [][]string{{"--target-dir", "t"}, {"--target-dir", "t", "-e", ".go", "-e", "Makefile"}, {"--target-dir", "t", "--dry-run"}, {"--target-dir", "t", "--dry-run", "-e", ".go"}, nil} {
				cases = append(cases, cliCase{Kind: "cli", Sub: "mkdir", Args: ma, Doc: hxs(doc), Text: doc, ViaFile: viaFile, Stdout: "pipe"})
			}
			cases = append(cases, cliCase{Kind: "cli", Sub: "mkdir", Args: []string{"--target-dir", "t"}, Doc: hxs(doc), Text: doc, ViaFile: viaFile, Stdout: "pipe", Pre: []FSEntry{{"t/a", "d"}, {"t/r", "d"}, {"t/Makefile", "f1"}}})
			cases = append(cases, cliCase{Kind: "cli", Sub: "mkdir", Args: []string{"--target-dir", "t", "--dry-run"}, Doc: hxs(doc), Text: doc, ViaFile: viaFile, Stdout: "full"})
			// verify
			for _, va := range [][]string{{"--target-dir", "t"}, {"--target-dir", "t", "--strict"}} {
				cases = append(cases, cliCase{Kind: "cli", Sub: "verify", Args: va, Doc: hxs(doc), Text: doc, ViaFile: viaFile, Stdout: "pipe"})
				cases = append(cases, cliCase{Kind: "cli", Sub: "verify", Args: va, Doc: hxs(doc), Text: doc, ViaFile: viaFile, Stdout: "pipe",
					Pre: []FSEntry{{"t/a/b/c.go", "f0"}, {"t/a/d", "d"}, {"t/e", "d"}, {"t/a/extra", "d"}}})
				cases = append(cases, cliCase{Kind: "cli", Sub: "verify", Args: va, Doc: hxs(doc), Text: doc, ViaFile: viaFile, Stdout: "pipe",
					Pre: []FSEntry{{"t/a/b/c.go", "f0"}, {"t/a/d", "d"}, {"t/e", "d"}}})
			}
		}
	}
	// usage / option / open failures
	d0 := hxs("- a\n")
	for _, sub := range []string{"output", "mkdir", "verify"} {
		cases = append(cases,
			cliCase{Kind: "cli", Sub: sub, Args: []string{"stray"}, Doc: d0, Stdout: "pipe", Expect: "usage"},
			cliCase{Kind: "cli", Sub: sub, Args: []string{"--no-such-flag"}, Doc: d0, Stdout: "pipe", Expect: "usage"},
			cliCase{Kind: "cli", Sub: sub, Args: []string{""}, Doc: d0, Stdout: "pipe", Expect: "usage"},
			cliCase{Kind: "cli", Sub: sub, Args: []string{"", "--no-such-flag"}, Doc: d0, Stdout: "pipe", Expect: "usage"},
			cliCase{Kind: "cli", Sub: sub, Args: []string{" "}, Doc: d0, Stdout: "pipe", Expect: "usage"},
			cliCase{Kind: "cli", Sub: sub, Args: []string{"--file", "/nonexistent/x.md"}, Doc: d0, Stdout: "pipe", Expect: "open"},
		)
	}
	cases = append(cases,
		cliCase{Kind: "cli", Sub: "output", Args: []string{"--format", "xml"}, Doc: d0, Stdout: "pipe", Expect: "opts"},
		cliCase{Kind: "cli", Sub: "output", Args: []string{"--massive-timeout", "0s"}, Doc: d0, Stdout: "pipe", Expect: "usage"},
		cliCase{Kind: "cli", Sub: "output", Args: []string{"--massive-timeout", "-1s"}, Doc: d0, Stdout: "pipe", Expect: "usage"},
		cliCase{Kind: "cli", Sub: "output", Args: []string{"--massive-timeout", "abc"}, Doc: d0, Stdout: "pipe", Expect: "usage"},
		cliCase{Kind: "cli", Sub: "template", Args: []string{"stray"}, Doc: "-", Stdout: "pipe", Expect: "usage"},
		cliCase{Kind: "cli", Sub: "mkdir", Args: []string{"--massive"}, Doc: d0, Stdout: "pipe", Expect: "usage"},
	)
	// --massive together with --massive-timeout (in both orders, long and short names): the corresponding library
	// option is WithMassive(a context with that timeout), so a timeout that has passed – one that is over before the
	// pipeline starts, or one that ends while stdin has delivered nothing yet – is a failure with the diagnostic;
	// either flag alone as before; a generous timeout changes nothing
	{
		tdocs := []string{docs[0], docs[1], docs[9], "- a\n", docs[10], ""}
		for di, doc := range tdocs {
			short := []string{"1ns", "7ns", fmt.Sprintf("%dns", 1+ctx.Rng.Intn(300))}[di%3]
			for ai, ta := range [][]string{
				{"--massive", "--massive-timeout", short}, {"-m", "--mt", short}, {"--mt", short, "-m"}, {"--massive-timeout", short, "--massive", "--format", "json"},
				{"--massive-timeout", short}, {"--mt", short, "--format", "yaml"},
				{"-m", "--mt", "1h"}, {"--massive", "--massive-timeout", "10m", "--format", "json"}, {"--mt", "1h"}, {"-m"},
			} {
				if !ctx.Thorough && di > 2 && ai%2 == 1 {
					continue
				}
				cases = append(cases, cliCase{Kind: "cli", Sub: "output", Args: ta, Doc: hxs(doc), Text: doc, ViaFile: (di+ai)%3 == 0, Stdout: "pipe"})
			}
		}
		for _, ta := range [][]string{{"-m", "--mt", "100ms"}, {"--massive-timeout", "100ms", "--massive"}, {"--mt", "100ms"}, {"-m"}, {"--mt", "1m", "-m"}, nil} {
			cases = append(cases, cliCase{Kind: "cli", Sub: "output", Args: ta, Doc: hxs(docs[0]), Text: docs[0], Stdout: "pipe", SlowMS: 1200 + ctx.Rng.Intn(500)})
		}
	}
	// --file names the file as the OS resolves it: through a symbolic link to a directory and back up is another
	// file than the lexically cleaned path
	// verify against absolute target directories, the file-system root among them ("/" and "//" are directories, not "no
	// target given"): what exists below the working directory must not count, what exists below the target must
	for _, tgt := range []string{"/", "//", "/usr", "/usr/", "/usr//"} {
		for _, strict := range []bool{false} {
			_ = strict
			inRoot, inUsr := "- usr\n  - bin\n", "- bin\n- lib\n"
			doc := inRoot
			if strings.HasPrefix(tgt, "/usr") {
				doc = inUsr
			}
			cases = append(cases, cliCase{Kind: "cli", Sub: "verify", Args: []string{"--target-dir", tgt}, Doc: hxs(doc), Text: doc, Stdout: "pipe"})
			only := "- only-below-the-working-directory\n  - x\n"
			cases = append(cases, cliCase{Kind: "cli", Sub: "verify", Args: []string{"--target-dir", tgt}, Doc: hxs(only), Text: only, Stdout: "pipe",
				Pre: []FSEntry{{"only-below-the-working-directory/x", "d"}}})
		}
	}
	for _, sa := range [][]string{{"output"}, {"output", "--format", "json"}, {"mkdir", "--target-dir", "t"}, {"mkdir", "--dry-run"}, {"verify", "--target-dir", "t"}} {
		pre := []FSEntry{{"real/sub/x", "d"}, {"link", "l:real/sub"}, {"real/doc.md", "f0"}, {"doc.md", "f0"}}
		cases = append(cases, cliCase{Kind: "cli", Sub: sa[0], Args: append(append([]string{}, sa[1:]...), "--file", "link/../doc.md"), Doc: hxs("- inner\n  - a\n"), Stdout: "pipe", Pre: pre, FileAt: "real/doc.md", Decoy: "doc.md"})
	}
	// input that cannot be read, or has a row no scanner accepts, right at its start: a failure, not an empty success
	long := hxs("- " + strings.Repeat("x", 70000) + "\n- a\n")
	blankThenLong := hxs("\n  \n- " + strings.Repeat("y", 66000) + "\n")
	for _, sa := range [][]string{{"output"}, {"output", "--format", "json"}, {"output", "--format", "yaml"}, {"output", "--massive"}, {"mkdir", "--dry-run"}, {"mkdir", "--target-dir", "t"}, {"verify", "--target-dir", "t"}} {
		cases = append(cases,
			cliCase{Kind: "cli", Sub: sa[0], Args: append(append([]string{}, sa[1:]...), "--file", "adir"), Doc: d0, Stdout: "pipe", Expect: "fail", Pre: []FSEntry{{"adir", "d"}}},
			cliCase{Kind: "cli", Sub: sa[0], Args: sa[1:], Doc: long, Text: "<first row of 70000 bytes>", Stdout: "pipe", Expect: "fail"},
			cliCase{Kind: "cli", Sub: sa[0], Args: sa[1:], Doc: blankThenLong, Text: "<blank rows, then a row of 66000 bytes>", Stdout: "pipe", Expect: "fail"},
		)
	}
	// seeded stream: random forests in random notations, sometimes with a random edit, through random
	// subcommands and flag combinations, with some of the tree already on disk
	{
		outArgs := [][]string{nil, {"--format", "json"}, {"--format", "yaml"}, {"--massive"}, {"--massive", "--format", "json"}, {"--massive-timeout", "1m"}, {"--massive", "--massive-timeout", "1m"}, {"-m", "--mt", "2ns"}, {"--mt", "3ns", "--format", "json"}}
		mkArgs := [][]string{{"--target-dir", "t"}, {"--target-dir", "t", "-e", ".go", "-e", "Makefile"}, {"--target-dir", "t", "--dry-run"}, {"--target-dir", "t", "-d", "-e", ".md"}, {"--target-dir", "t/nested/deeper", "-e", ".go"}}
		vfArgs := [][]string{{"--target-dir", "t"}, {"--target-dir", "t", "--strict"}}
		alphabet := []byte(" \t-*+#x\n")
		for k := 0; k < pick(ctx.Thorough, 2500, 400); k++ {
			f := randForest(ctx.Rng, 1+ctx.Rng.Intn(8), []string{"plain", "plain", "unicode", "quotes", "path", "blanks"}, 3, rep.Dist)
			doc := spell(f, randSpelling(ctx.Rng))
			if ctx.Rng.Intn(3) == 0 && len(doc) > 0 {
				pos := ctx.Rng.Intn(len(doc))
				doc = append(append(append([]byte{}, doc[:pos]...), alphabet[ctx.Rng.Intn(len(alphabet))]), doc[pos:]...)
			}
			c := cliCase{Kind: "cli", Doc: hx(doc), Text: docText(doc), ViaFile: ctx.Rng.Intn(3) == 0, Stdout: "pipe"}
			switch ctx.Rng.Intn(3) {
			case 0:
				c.Sub, c.Args = "output", outArgs[ctx.Rng.Intn(len(outArgs))]
				if len(c.Args) == 0 && ctx.Rng.Intn(4) == 0 {
					c.Stdout = "full"
				}
			case 1:
				c.Sub, c.Args = "mkdir", mkArgs[ctx.Rng.Intn(len(mkArgs))]
			default:
				c.Sub, c.Args = "verify", vfArgs[ctx.Rng.Intn(len(vfArgs))]
			}
			if c.Sub != "output" && c.Args[1] == "t" {
				paths, _ := nodePaths(f)
				for _, q := range paths {
					ok := !strings.ContainsAny(q, "\x00\\") && len(q) < 200
					for _, e := range strings.Split(q, "/") {
						if e == "" || e == "." || e == ".." {
							ok = false
						}
					}
					if ok && ctx.Rng.Intn(pick(c.Sub == "verify", 10, 2)) != 0 == (c.Sub == "verify") {
						c.Pre = append(c.Pre, FSEntry{"t/" + q, []string{"d", "d", "f0"}[ctx.Rng.Intn(3)]})
					}
				}
			}
			cases = append(cases, c)
		}
	}
	m := NewModel()
	defer m.Close()
	parallel(cases, ctx.Workers, func(m *Model, c cliCase) {
		diffs := runCli(m, bin, c)
		b, _ := json.Marshal(c)
		rep.Record(c, string(b), len(c.Args) > 0, diffs)
		rep.Count("cli:" + c.Sub + "/" + c.Stdout + ifs(c.Expect != "", "/"+c.Expect, ""))
	})
	// template | output renders the documented sample tree
	t := execCli(bin, scratch(), []string{"template"}, nil, "pipe")
	o := execCli(bin, scratch(), []string{"output"}, t.stdout, "pipe")
	var diffs []Diff
	if t.code != 0 || o.code != 0 || string(o.stdout) != sampleTree {
		diffs = append(diffs, Diff{What: "template | output", Real: fmt.Sprintf("exit %d/%d: %s", t.code, o.code, o.stdout), Model: sampleTree})
	}
	rep.Record(map[string]string{"kind": "template-pipe"}, "template-pipe", true, diffs)
	knownHits.Lock()
	for k, v := range knownHits.m {
		rep.Known[k] += v
	}
	knownHits.Unlock()
	return rep
}
