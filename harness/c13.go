package main

import (
	"bytes"
	"context"
	"encoding/json"
	"iter"
	"os"
	"path/filepath"
	"strings"
	"sync"

	"github.com/ddddddO/gtree"
)

// C13: results depend only on the tree, not on call history or concurrent use.
// A history interleaves NewRoot / Add (on any node of any live tree) / From-Root operations; the
// real results are compared op by op with the Lean arena model (Programmable.lean), whose From-Root
// results are a function of the tree below the root only.

func init() {
	props["c13"] = runC13
	replayers["hist"] = func(m *Model, raw json.RawMessage) []Diff {
		var h histCase
		json.Unmarshal(raw, &h)
		return runHist(m, h)
	}
}

type histCase struct {
	Kind string   `json:"kind"`
	Ops  []string `json:"ops"` // N:<name> | A:<id>:<name> | O:<id> | W:<id> | J:<id>  (names in clear text here)
	Fmt  Fmt4     `json:"fmt"`
}

func (h histCase) wire() string {
	out := make([]string, len(h.Ops))
	for i, op := range h.Ops {
		p := strings.Split(op, ":")
		switch p[0] {
		case "N":
			out[i] = "N:" + hxs(p[1])
		case "A":
			out[i] = "A:" + p[1] + ":" + hxs(p[2])
		case "M":
			// a real Mkdir with file extensions into a fresh directory, followed by a strict Verify of what it made:
			// for the model this is the verdict about the names (its dry run) – the tree is what it was
			out[i] = "D:" + p[1]
		case "I", "P":
			// I: a sequence is obtained from WalkIterFromRoot and kept; P: another From-Root operation with other
			// branch strings on the same tree, its result thrown away – neither is an observation
			out[i] = ""
		case "R":
			// the k-th kept sequence is ranged now: the callback walk of its root, now
			out[i] = "W:" + h.seqRoot(p[1])
		default:
			out[i] = op
		}
	}
	var kept []string
	for _, o := range out {
		if o != "" {
			kept = append(kept, o)
		}
	}
	return strings.Join(kept, ";")
}

// seqRoot: the node id the k-th "I" operation of the history was given
func (h histCase) seqRoot(k string) string {
	n := 0
	for _, op := range h.Ops {
		if p := strings.Split(op, ":"); p[0] == "I" {
			if fmtInt(n) == k {
				return p[1]
			}
			n++
		}
	}
	return "nil"
}

// realHist runs the history on the real API; node ids are positions in creation order.
func realHist(h histCase) []string {
	var nodes []*gtree.Node
	idOf := func(n *gtree.Node) int {
		for i, x := range nodes {
			if x == n {
				return i
			}
		}
		nodes = append(nodes, n)
		return len(nodes) - 1
	}
	get := func(s string) *gtree.Node {
		if s == "nil" {
			return nil
		}
		var i int
		for _, ch := range s {
			i = i*10 + int(ch-'0')
		}
		if i >= len(nodes) {
			return nil
		}
		return nodes[i]
	}
	var res []string
	fo := fmtOpts(h.Fmt)
	var seqs []iter.Seq2[*gtree.WalkerNode, error]
	for _, op := range h.Ops {
		p := strings.Split(op, ":")
		switch p[0] {
		case "M":
			// variants: s(imple) | a(lias) | m(assive) | am
			jail := newJail()
			o := []gtree.Option{gtree.WithTargetDir(filepath.Join(jail, "t")), gtree.WithFileExtensions([]string{".go", ".md"})}
			if strings.Contains(p[2], "m") {
				o = append(o, gtree.WithMassive(context.Background()))
			}
			var err error
			if strings.Contains(p[2], "a") {
				err = gtree.MkdirProgrammably(get(p[1]), o...)
			} else {
				err = gtree.MkdirFromRoot(get(p[1]), o...)
			}
			r := "e=" + classify(err)
			if err == nil {
				// what the call has just made is, strictly, the tree it was given
				if verr := gtree.VerifyFromRoot(get(p[1]), gtree.WithTargetDir(filepath.Join(jail, "t")), gtree.WithStrictVerify()); verr != nil {
					r += " but a strict Verify of the directory Mkdir has just made says: " + classifyRel(verr, jail)
				}
			}
			os.RemoveAll(jail)
			res = append(res, r)
		case "I":
			if p[2] == "a" {
				seqs = append(seqs, gtree.WalkIterProgrammably(get(p[1]), fo...))
			} else {
				seqs = append(seqs, gtree.WalkIterFromRoot(get(p[1]), fo...))
			}
		case "P":
			var b bytes.Buffer
			other := fmtCustom
			if h.Fmt == fmtCustom {
				other = fmtMulti
			}
			switch p[2] {
			case "o":
				gtree.OutputFromRoot(&b, get(p[1]), fmtOpts(other)...)
			case "w":
				gtree.WalkFromRoot(get(p[1]), func(*gtree.WalkerNode) error { return nil }, fmtOpts(other)...)
			default:
				for _, err := range gtree.WalkIterFromRoot(get(p[1]), fmtOpts(other)...) {
					if err != nil {
						break
					}
				}
			}
		case "R":
			var k int
			for _, ch := range p[1] {
				k = k*10 + int(ch-'0')
			}
			var vs []string
			var ierr error
			for wn, err := range seqs[k] {
				if err != nil {
					ierr = err
					break
				}
				vs = append(vs, showVisit(wn))
			}
			res = append(res, "v="+showVisits(vs)+" e="+classify(ierr))
		case "N":
			res = append(res, "id="+fmtInt(idOf(gtree.NewRoot(p[1]))))
		case "A":
			parent := get(p[1])
			if parent == nil {
				res = append(res, "id=none")
				continue
			}
			res = append(res, "id="+fmtInt(idOf(parent.Add(p[2]))))
		case "O":
			var b bytes.Buffer
			err := gtree.OutputFromRoot(&b, get(p[1]), fo...)
			res = append(res, "w="+hx(b.Bytes())+" e="+classify(err))
		case "W":
			var vs []string
			err := gtree.WalkFromRoot(get(p[1]), func(wn *gtree.WalkerNode) error { vs = append(vs, showVisit(wn)); return nil }, fo...)
			res = append(res, "v="+showVisits(vs)+" e="+classify(err))
		case "D":
			colorOutMu.Lock()
			old := colorOutput()
			setColorOutput(&lockedBuf{})
			err := gtree.MkdirFromRoot(get(p[1]), gtree.WithDryRun(), gtree.WithTargetDir(filepath.Join(scratch(), "c13-dry-run-target")))
			setColorOutput(old)
			colorOutMu.Unlock()
			res = append(res, "e="+classify(err))
		case "V":
			err := gtree.VerifyFromRoot(get(p[1]), gtree.WithTargetDir("/nonexistent-verif-target"))
			res = append(res, "e="+errClass(classify(err)))
		case "J":
			var b bytes.Buffer
			err := gtree.OutputFromRoot(&b, get(p[1]), gtree.WithEncodeJSON())
			nodes2, derr := decodeFormatted("json", b.Bytes())
			s := "f=" + showFNodes(nodes2) + " e=" + classify(err)
			if derr != nil {
				s = "decode-error"
			}
			res = append(res, s)
		}
	}
	return res
}

func runHist(m *Model, h histCase) []Diff {
	realv := strings.Join(realHist(h), "#")
	modelv := m.Ask("hist " + h.Fmt.enc() + " " + h.wire())
	return cmp("history", realv, modelv)
}

func runC13(ctx *Ctx) *Report {
	rep := NewReport("C13")
	var hs []histCase
	// exhaustive: all histories of length ≤ L over {N:r, A:<any existing id>:{a,b}, O/W:<any existing id>}
	L := 6
	if ctx.Thorough {
		L = 7
	}
	var rec func(ops []string, nnodes int)
	rec = func(ops []string, nnodes int) {
		if len(ops) > 0 {
			last := ops[len(ops)-1][0]
			if last == 'O' || last == 'W' {
				hs = append(hs, histCase{Kind: "hist", Ops: append([]string{}, ops...), Fmt: fmtDefault})
			}
		}
		if len(ops) == L {
			return
		}
		if nnodes < 4 {
			rec(append(ops, "N:r"), nnodes+1)
		}
		for id := 0; id < nnodes; id++ {
			if id > 2 {
				break
			}
			for _, nm := range []string{"a", "b"} {
				// upper bound on node count: an Add may or may not create a node; ids beyond are skipped by the model/real alike
				rec(append(ops, "A:"+fmtInt(id)+":"+nm), nnodes+1)
			}
		}
		for id := 0; id < nnodes && id < 2; id++ {
			rec(append(ops, "O:"+fmtInt(id)), nnodes)
		}
		if len(ops) > 2 {
			rec(append(ops, "W:0"), nnodes)
		}
	}
	rec(nil, 0)
	if !ctx.Thorough && len(hs) > 60000 {
		// keep a deterministic stride
		var keep []histCase
		stride := len(hs)/60000 + 1
		for i := 0; i < len(hs); i += stride {
			keep = append(keep, hs[i])
		}
		rep.Notes = append(rep.Notes, "exhaustive enumeration strided 1/"+fmtInt(stride))
		hs = keep
	} else {
		rep.Exhaustive = true
	}
	// random long histories
	nr := 1500
	if ctx.Thorough {
		nr = 30000
	}
	names := []string{"a", "b", "c", "x/y"}
	for k := 0; k < nr; k++ {
		h := histCase{Kind: "hist", Fmt: allFormats()[k%len(allFormats())]}
		n := 0
		for j := 0; j < 10+ctx.Rng.Intn(60); j++ {
			switch r := ctx.Rng.Intn(10); {
			case n == 0 || r == 0:
				h.Ops = append(h.Ops, "N:"+names[ctx.Rng.Intn(4)])
				n++
			case r < 6:
				h.Ops = append(h.Ops, "A:"+fmtInt(ctx.Rng.Intn(n))+":"+names[ctx.Rng.Intn(4)])
				n++
			case r < 8:
				h.Ops = append(h.Ops, "O:"+fmtInt(ctx.Rng.Intn(n)))
			case r == 8 && j%2 == 0:
				h.Ops = append(h.Ops, "D:"+fmtInt(ctx.Rng.Intn(n)))
			case r == 8 && j%3 == 0:
				h.Ops = append(h.Ops, "V:"+fmtInt(ctx.Rng.Intn(n)))
			case r == 8:
				h.Ops = append(h.Ops, "W:"+fmtInt(ctx.Rng.Intn(n)))
			default:
				h.Ops = append(h.Ops, "J:"+fmtInt(ctx.Rng.Intn(n)))
			}
		}
		hs = append(hs, h)
	}
	// wide nodes: many different names under one parent, then names that exist already (the k-th, the last …)
	for _, w := range []int{15, 16, 17, 18, 32, 33, 64, 65} {
		for _, again := range []int{0, 15, 16, 17, w - 2, w - 1} {
			if again >= w {
				continue
			}
			h := histCase{Kind: "hist", Fmt: fmtDefault}
			h.Ops = append(h.Ops, "N:r", "A:0:p")
			for j := 0; j < w; j++ {
				h.Ops = append(h.Ops, "A:1:k"+fmtInt(j))
			}
			h.Ops = append(h.Ops, "O:0", "A:1:k"+fmtInt(again), "A:"+fmtInt(2+again)+":under", "O:0", "W:0", "J:0", "A:1:k"+fmtInt(again), "O:0")
			hs = append(hs, h)
		}
	}
	// histories with a real Mkdir (file extensions; files and directories in every sibling order) before other
	// operations on the same tree, and with iterator sequences that are kept in a variable while the tree grows or
	// goes through operations with other branch strings, and are ranged later, some of them twice
	{
		fnames := []string{"a", "b", "x.go", "README.md", "c", "main.go", "docs"}
		for k := 0; k < pickInt(ctx.Thorough, 20000, 1200); k++ {
			h := histCase{Kind: "hist", Fmt: allFormats()[k%len(allFormats())]}
			created := map[string]int{} // parent id + name -> node id (Add of an existing name creates nothing)
			var rootsOf []int           // node id -> id of its root
			nseq := 0
			add := func(parent int, name string) {
				h.Ops = append(h.Ops, "A:"+fmtInt(parent)+":"+name)
				key := fmtInt(parent) + "/" + name
				if _, ok := created[key]; !ok {
					created[key] = len(rootsOf)
					rootsOf = append(rootsOf, rootsOf[parent])
				}
			}
			nops := 8 + ctx.Rng.Intn(40)
			for j := 0; j < nops; j++ {
				n := len(rootsOf)
				switch r := ctx.Rng.Intn(16); {
				case n == 0 || (r == 0 && j%3 == 0):
					h.Ops = append(h.Ops, "N:"+fnames[ctx.Rng.Intn(len(fnames))])
					rootsOf = append(rootsOf, n)
				case r < 7:
					add(ctx.Rng.Intn(n), fnames[ctx.Rng.Intn(len(fnames))])
				case r == 7:
					// a burst of siblings under one parent: files and directories mixed
					par := ctx.Rng.Intn(n)
					for _, pi := range ctx.Rng.Perm(len(fnames))[:2+ctx.Rng.Intn(4)] {
						add(par, fnames[pi])
					}
				case r == 8 || r == 9:
					h.Ops = append(h.Ops, "M:"+fmtInt(rootsOf[ctx.Rng.Intn(n)])+":"+[]string{"s", "a", "m", "am"}[ctx.Rng.Intn(4)])
				case r == 10:
					h.Ops = append(h.Ops, "I:"+fmtInt(rootsOf[ctx.Rng.Intn(n)])+":"+[]string{"r", "a"}[ctx.Rng.Intn(2)])
					nseq++
				case r == 11 && nseq > 0:
					h.Ops = append(h.Ops, "R:"+fmtInt(ctx.Rng.Intn(nseq)))
				case r == 12:
					h.Ops = append(h.Ops, "P:"+fmtInt(rootsOf[ctx.Rng.Intn(n)])+":"+[]string{"o", "w", "i"}[ctx.Rng.Intn(3)])
				case r == 13:
					h.Ops = append(h.Ops, "J:"+fmtInt(rootsOf[ctx.Rng.Intn(n)]))
				case r == 14:
					h.Ops = append(h.Ops, "W:"+fmtInt(rootsOf[ctx.Rng.Intn(n)]))
				default:
					h.Ops = append(h.Ops, "O:"+fmtInt(rootsOf[ctx.Rng.Intn(n)]))
				}
			}
			// every kept sequence is ranged at the end, twice, with an operation in other branch strings in between
			for q := 0; q < nseq; q++ {
				h.Ops = append(h.Ops, "R:"+fmtInt(q), "P:"+h.seqRoot(fmtInt(q))+":o", "R:"+fmtInt(q))
			}
			h.Ops = append(h.Ops, "O:0", "W:0", "J:0")
			hs = append(hs, h)
		}
		// directed: the sequence is requested from a small tree, Adds at depth 1, 2, 3 follow, then it is ranged
		for depth := 1; depth <= 3; depth++ {
			for _, alias := range []string{"r", "a"} {
				for _, between := range []string{"", "P:0:o", "P:0:w", "P:0:i", "M:0:s", "O:0"} {
					h := histCase{Kind: "hist", Fmt: allFormats()[(depth+len(between))%len(allFormats())]}
					h.Ops = []string{"N:r", "A:0:a", "A:1:b", "A:2:c", "A:0:x.go", "A:0:z", "I:0:" + alias, "A:" + fmtInt(depth-1) + ":late", "A:" + fmtInt(depth-1) + ":later.go"}
					if between != "" {
						h.Ops = append(h.Ops, between)
					}
					h.Ops = append(h.Ops, "R:0", "W:0", "A:6:under-late", "P:0:o", "R:0", "R:0", "O:0")
					hs = append(hs, h)
				}
			}
		}
	}
	parallel(hs, ctx.Workers, func(m *Model, h histCase) {
		// ids in the enumeration may refer to nodes an Add did not create; both sides then answer id=none / nilnode
		diffs := runHist(m, h)
		b, _ := json.Marshal(h)
		nOps := 0
		for _, op := range h.Ops {
			if op[0] == 'O' || op[0] == 'W' || op[0] == 'J' || op[0] == 'D' || op[0] == 'V' || op[0] == 'M' || op[0] == 'R' {
				nOps++
			}
			if op[0] == 'M' || op[0] == 'R' {
				rep.Count("hist:op=" + ifs(op[0] == 'M', "real mkdir with extensions", "kept iterator sequence ranged"))
			}
		}
		rep.Record(h, string(b), nOps >= 2 && len(h.Ops) >= 5, diffs)
		rep.Count("hist:len=" + fmtInt(len(h.Ops)/10*10) + "+")
	})
	// the iterator form while other trees are being built by its consumer between two items
	{
		var its []Case
		enumForests(4, []string{"a", "b"}, func(f []*Tree) {
			t := &Tree{Name: "r", Kids: f}
			for _, brk := range []int{-1, 2} {
				c := newCase("rootiter")
				c.Tree, c.Fmt, c.Busy, c.Break = t.Enc(), fmtDefault, true, brk
				its = append(its, c)
			}
		})
		m := NewModel()
		for _, c := range its {
			rep.Record(c, caseKey(c), true, runCase(m, c))
		}
		m.Close()
	}
	// From-Markdown calls one after another on documents in different notations: each gives what it gives alone
	{
		var seq []Case
		sps := coveringSpellings()
		fo := forestsUpTo(3, []string{"a", "b"})
		for i := 0; i < 300; i++ {
			f := fo[(i*7)%len(fo)]
			doc := spell(f, sps[i%len(sps)])
			c := newCase([]string{"out", "walk", "outf"}[i%3])
			c.Mode, c.Format = "iter-text", "json"
			c.Doc, c.DocText = hx(doc), docText(doc)
			seq = append(seq, c)
			if len(f) == 1 {
				// the same through the massive pipeline (one root: the result is determined): nothing learnt
				// from an earlier document – indent unit, indent character, heading roots – may survive the call
				c2 := newCase("out")
				c2.Mode, c2.Massive = "iter-text", true
				c2.Doc, c2.DocText = hx(doc), docText(doc)
				seq = append(seq, c2)
			}
		}
		m := NewModel()
		for _, c := range seq {
			rep.Record(c, caseKey(c), true, runCase(m, c))
		}
		m.Close()
	}
	// concurrency: independent histories in parallel goroutines give the results they give alone;
	// independent From-Markdown calls likewise
	conc := hs
	if len(conc) > 400 {
		conc = conc[len(conc)-400:]
	}
	alone := make([]string, len(conc))
	for i, h := range conc {
		alone[i] = strings.Join(realHistTreeOnly(h), "#")
	}
	together := make([]string, len(conc))
	var wg sync.WaitGroup
	for i := range conc {
		wg.Add(1)
		go func(i int) {
			defer wg.Done()
			together[i] = strings.Join(realHistTreeOnly(conc[i]), "#")
		}(i)
	}
	wg.Wait()
	for i := range conc {
		rep.Record(map[string]any{"kind": "hist-concurrent", "ops": conc[i].Ops}, "conc:"+fmtInt(i), true,
			cmp("history run concurrently with others vs alone", together[i], alone[i]))
	}
	doc := []byte("- a\n  - b\n    - c\n  - d\n- e\n  - f\n")
	var want bytes.Buffer
	gtree.OutputFromMarkdown(&want, bytes.NewReader(doc))
	outs := make([]string, 64)
	for i := range outs {
		wg.Add(1)
		go func(i int) {
			defer wg.Done()
			var b bytes.Buffer
			err := gtree.OutputFromMarkdown(&b, bytes.NewReader(doc))
			outs[i] = hx(b.Bytes()) + classify(err)
		}(i)
	}
	wg.Wait()
	for i := range outs {
		rep.Record(map[string]any{"kind": "markdown-concurrent", "i": i}, "mdconc:"+fmtInt(i), i < 2, cmp("concurrent From-Markdown call", outs[i], hx(want.Bytes())+"nil"))
	}
	// concurrent massive calls on one-root documents in different notations
	{
		sps := coveringSpellings()
		tree := []*Tree{{Name: "r", Kids: []*Tree{{Name: "a", Kids: []*Tree{{Name: "b"}, {Name: "c"}}}, {Name: "d"}}}}
		var want bytes.Buffer
		gtree.OutputFromMarkdown(&want, bytes.NewReader(spell(tree, plainSpelling)))
		mouts := make([]string, 48)
		for i := range mouts {
			wg.Add(1)
			go func(i int) {
				defer wg.Done()
				var b lockedBuf
				err := gtree.OutputFromMarkdown(&b, bytes.NewReader(spell(tree, sps[i%len(sps)])), gtree.WithMassive(context.Background()))
				mouts[i] = hx(b.finish()) + classify(err)
			}(i)
		}
		wg.Wait()
		for i := range mouts {
			rep.Record(map[string]any{"kind": "markdown-massive-concurrent", "spelling": sps[i%len(sps)]}, "mdmconc:"+fmtInt(i), true, cmp("concurrent massive From-Markdown call", mouts[i], hx(want.Bytes())+"nil"))
		}
	}
	return rep
}

// realHistTreeOnly: like realHist but only the results of From-Root operations (ids are per history)
func realHistTreeOnly(h histCase) []string {
	var out []string
	for _, r := range realHist(h) {
		if !strings.HasPrefix(r, "id=") {
			out = append(out, r)
		}
	}
	return out
}
