package main

import (
	"bytes"
	"context"
	"encoding/json"
	"errors"
	"fmt"
	"io"
	"math/rand"
	"os"
	"path/filepath"
	"runtime"
	"sort"
	"strings"
	"sync"
	"sync/atomic"
	"time"

	"github.com/ddddddO/gtree"
)

// C10: massive mode is observationally the simple mode up to the order of roots.
// C11: massive mode always returns, leaves no goroutine behind (after a settling period), returns the
//      context's error when cancelled before finishing.
// Both evaluate the property's relation directly on the real code under perturbed schedules
// (seeded delays / yields injected at the verifPoint hand-over points, GOMAXPROCS variants).

func init() {
	props["c10"] = runC10
	props["c11"] = runC11
	replayers["massive"] = func(m *Model, raw json.RawMessage) []Diff {
		var c massiveCase
		json.Unmarshal(raw, &c)
		return runMassive(m, c)
	}
	replayers["split"] = func(m *Model, raw json.RawMessage) []Diff {
		var c struct {
			Doc string `json:"doc_hex"`
		}
		json.Unmarshal(raw, &c)
		return runSplit(m, unhx(c.Doc))
	}
	replayers["massive-fault"] = func(m *Model, raw json.RawMessage) []Diff {
		var c faultCase
		json.Unmarshal(raw, &c)
		return runFault(c)
	}
}

var massiveMu sync.Mutex // the hook is process-global: massive cases run one at a time

type massiveCase struct {
	Kind     string   `json:"kind"`
	Op       string   `json:"op"` // text json yaml dry walk mkdir verify
	Doc      string   `json:"doc_hex"`
	Text     string   `json:"doc_text,omitempty"`
	Blocks   []int    `json:"block_sizes,omitempty"` // lines per root block of the simple text output (well-formed documents)
	Sched    int64    `json:"sched_seed"`
	Procs    int      `json:"gomaxprocs"`
	Exts     []string `json:"exts,omitempty"`
	Fmt      Fmt4     `json:"fmt"`
	Known    string   `json:"known_class,omitempty"`
	ReadFail int      `json:"reader_fails_after,omitempty"` // >0: the reader fails after this many bytes (minus one)
	SlowUS   int      `json:"slow_writer_us,omitempty"`     // each Write of the massive run takes this long
}

// installSched installs a seeded perturbation at the hand-over points and returns the list of points reached.
func installSched(seed int64) func() map[string]int {
	var mu sync.Mutex
	reached := map[string]int{}
	rng := rand.New(rand.NewSource(seed))
	gtree.SetVerifHook(func(name string) {
		mu.Lock()
		reached[name]++
		r := rng.Intn(8)
		us := 50 + rng.Intn(200)
		mu.Unlock()
		switch {
		case seed == 0:
		case r == 0:
			time.Sleep(time.Duration(us) * time.Microsecond)
		case r < 4:
			runtime.Gosched()
		}
	})
	return func() map[string]int {
		gtree.SetVerifHook(nil)
		mu.Lock()
		defer mu.Unlock()
		return reached
	}
}

// lockedBuf is a writer safe for concurrent use that also counts writes arriving after the call returned.
type lockedBuf struct {
	mu       sync.Mutex
	buf      bytes.Buffer
	returned bool
	late     int
	slow     time.Duration // a writer that takes its time (a pipe to a slow consumer)
}

func (b *lockedBuf) Write(p []byte) (int, error) {
	if b.slow > 0 {
		time.Sleep(b.slow)
	}
	b.mu.Lock()
	defer b.mu.Unlock()
	if b.returned {
		b.late++
		return len(p), nil
	}
	return b.buf.Write(p)
}
func (b *lockedBuf) finish() []byte {
	b.mu.Lock()
	defer b.mu.Unlock()
	b.returned = true
	return append([]byte{}, b.buf.Bytes()...)
}
func (b *lockedBuf) lateWrites() int {
	b.mu.Lock()
	defer b.mu.Unlock()
	return b.late
}

type opResult struct {
	lb   *lockedBuf
	out  []byte
	err  error
	rows []string // walk
	late []string // walk: the same facts read from the retained *WalkerNode values after the walk has returned
	snap string   // mkdir
}

var runOpSlow time.Duration

var runOpReadFail int // set by runMassive for the duration of one case (massive cases run one at a time)

func docReader(doc []byte) io.Reader {
	if runOpReadFail > 0 {
		k := runOpReadFail - 1
		if k > len(doc) {
			k = len(doc)
		}
		return &faultReader{data: append([]byte{}, doc[:k]...), fail: true, chunk: 11}
	}
	return bytes.NewReader(doc)
}

func runOp(op string, doc []byte, massive bool, ctx context.Context, f Fmt4, exts []string) opResult {
	var opts []gtree.Option
	if massive {
		opts = append(opts, gtree.WithMassive(ctx))
	}
	var res opResult
	buf := &lockedBuf{}
	if massive {
		buf.slow = runOpSlow
	}
	res.lb = buf
	switch op {
	case "text":
		res.err = gtree.OutputFromMarkdown(buf, docReader(doc), append(opts, fmtOpts(f)...)...)
	case "json", "yaml", "toml":
		res.err = gtree.OutputFromMarkdown(buf, docReader(doc), append(opts, encodeOpt(op))...)
	case "dry":
		res.err = gtree.OutputFromMarkdown(buf, docReader(doc), append(opts, gtree.WithDryRun(), gtree.WithFileExtensions(exts))...)
	case "dry+json":
		res.err = gtree.OutputFromMarkdown(buf, docReader(doc), append(opts, gtree.WithDryRun(), gtree.WithEncodeJSON(), gtree.WithFileExtensions(exts))...)
	case "walk":
		var mu sync.Mutex
		var rows []string
		var kept []*gtree.WalkerNode // a callback may keep what it is handed: each value stays the node it was
		fact := func(wn *gtree.WalkerNode) string {
			return wn.Path() + "\x00" + wn.Row()
		}
		res.err = gtree.WalkFromMarkdown(docReader(doc), func(wn *gtree.WalkerNode) error {
			mu.Lock()
			rows = append(rows, fact(wn))
			kept = append(kept, wn)
			mu.Unlock()
			return nil
		}, append(opts, fmtOpts(f)...)...)
		mu.Lock()
		res.rows = append([]string{}, rows...)
		keptNow := append([]*gtree.WalkerNode{}, kept...)
		mu.Unlock()
		for _, wn := range keptNow {
			res.late = append(res.late, fact(wn)+"\x00"+wn.Name()+"\x00"+fmtInt(int(wn.Level()))+"\x00"+b01(wn.HasChild()))
		}
	case "mkdir":
		jail := newJail()
		defer os.RemoveAll(jail)
		res.err = gtree.MkdirFromMarkdown(bytes.NewReader(doc), append(opts, gtree.WithTargetDir(filepath.Join(jail, "t")), gtree.WithFileExtensions(exts))...)
		var snap []string
		for _, e := range snapshot(jail) {
			p := strings.SplitN(e, ":", 2)
			snap = append(snap, strings.TrimPrefix(string(unhx(p[0])), jail)+":"+p[1])
		}
		res.snap = strings.Join(snap, ",")
	case "verify":
		jail := newJail()
		defer os.RemoveAll(jail)
		t := filepath.Join(jail, "t")
		gtree.MkdirFromMarkdown(bytes.NewReader(doc), gtree.WithTargetDir(t), gtree.WithFileExtensions(exts))
		os.MkdirAll(filepath.Join(t, "zz-extra"), 0o755)
		res.err = gtree.VerifyFromMarkdown(bytes.NewReader(doc), append(opts, gtree.WithTargetDir(t), gtree.WithStrictVerify())...)
		if res.err != nil {
			res.snap = strings.ReplaceAll(errClass(classify(res.err)), hxs(jail), "")
		}
	}
	res.out = buf.finish()
	return res
}

// splitLines keeps the terminating LF with each line.
func splitLines(b []byte) []string {
	var out []string
	for len(b) > 0 {
		i := bytes.IndexByte(b, '\n')
		if i < 0 {
			out = append(out, string(b))
			break
		}
		out = append(out, string(b[:i+1]))
		b = b[i+1:]
	}
	return out
}

// isBlockPermutation: is `got` a concatenation, in some order, of exactly the given blocks?
func isBlockPermutation(got string, blocks []string) bool {
	used := make([]bool, len(blocks))
	var rec func(pos, left int) bool
	rec = func(pos, left int) bool {
		if left == 0 {
			return pos == len(got)
		}
		tried := map[string]bool{}
		for i, b := range blocks {
			if used[i] || tried[b] {
				continue
			}
			tried[b] = true
			if strings.HasPrefix(got[pos:], b) {
				used[i] = true
				if rec(pos+len(b), left-1) {
					return true
				}
				used[i] = false
			}
		}
		return false
	}
	return rec(0, len(blocks))
}

// blocksOf cuts the simple output into per-root blocks.
func blocksOf(op string, simple []byte, sizes []int) []string {
	switch op {
	case "json":
		return append([]string{}, splitLines(simple)...) // one JSON value per line
	case "yaml":
		// yaml.v3 separates documents with "---\n"
		parts := strings.Split(string(simple), "---\n")
		return parts
	}
	lines := splitLines(simple)
	blocks := []string{}
	i := 0
	for _, n := range sizes {
		k := n
		if op == "dry" || op == "dry+json" {
			k = n + 2 // empty line + summary
		}
		if i+k > len(lines) {
			return nil
		}
		blocks = append(blocks, strings.Join(lines[i:i+k], ""))
		i += k
	}
	if i != len(lines) {
		return nil
	}
	return blocks
}

// massiveHangs counts massive calls that did not return; after a few the suite stops (every further
// case would wait out its deadline, and what hung still holds its goroutines)
var massiveHangs int

func runOpDeadline(op string, doc []byte, f Fmt4, exts []string) (opResult, bool) {
	ch := make(chan opResult, 1)
	go func() { ch <- runOp(op, doc, true, context.Background(), f, exts) }()
	select {
	case r := <-ch:
		return r, true
	case <-time.After(20 * time.Second):
		return opResult{}, false
	}
}

func runMassive(m *Model, c massiveCase) []Diff {
	massiveMu.Lock()
	defer massiveMu.Unlock()
	doc := unhx(c.Doc)
	if c.Procs > 0 {
		defer runtime.GOMAXPROCS(runtime.GOMAXPROCS(c.Procs))
	}
	runOpReadFail = c.ReadFail
	runOpSlow = time.Duration(c.SlowUS) * time.Microsecond
	defer func() { runOpReadFail, runOpSlow = 0, 0 }()
	simple := runOp(c.Op, doc, false, nil, c.Fmt, c.Exts)
	// per-root block sizes of the reference (simple-mode) result: roots are the level-1 visits
	var sizes []int
	gtree.WalkFromMarkdown(bytes.NewReader(doc), func(wn *gtree.WalkerNode) error {
		if wn.Level() == 1 {
			sizes = append(sizes, 0)
		}
		sizes[len(sizes)-1]++
		return nil
	})
	c.Blocks = sizes
	before := runtime.NumGoroutine()
	done := installSched(c.Sched)
	massive, returned := runOpDeadline(c.Op, doc, c.Fmt, c.Exts)
	reached := done()
	_ = reached
	if !returned {
		massiveHangs++
		buf := make([]byte, 1<<17)
		n := runtime.Stack(buf, true)
		return []Diff{{What: "massive mode did not return within 20 s where simple mode returned " + classify(simple.err), Real: string(buf[:n]), Model: "simple: " + classify(simple.err)}}
	}
	var d []Diff
	if c.Op == "walk" {
		// the *WalkerNode values a callback retained describe, after the walk has returned, the nodes they described
		// inside the callback – in both modes
		for _, x := range []struct {
			mode string
			r    opResult
		}{{"simple", simple}, {"massive", massive}} {
			for i, l := range x.r.late {
				if i < len(x.r.rows) && !strings.HasPrefix(l, x.r.rows[i]+"\x00") {
					d = append(d, Diff{What: "walk (" + x.mode + " mode): a *WalkerNode the callback kept describes another node after the walk has returned", Real: hxs(l), Model: hxs(x.r.rows[i])})
					break
				}
			}
		}
		if simple.err == nil && massive.err == nil {
			a := append([]string{}, simple.late...)
			b := append([]string{}, massive.late...)
			sort.Strings(a)
			sort.Strings(b)
			if strings.Join(a, "\x01") != strings.Join(b, "\x01") {
				d = append(d, Diff{What: "walk: the nodes retained by the callback, read after the walk returned, are another multiset in massive mode", Real: hxs(strings.Join(massive.late, "\n")), Model: hxs(strings.Join(simple.late, "\n"))})
			}
		}
	}
	if (simple.err == nil) != (massive.err == nil) {
		if massive.err == nil && wrongCharRow(doc, simple.err) {
			noteKnown("c10.massive-accepts-wrong-indent-char")
			return nil
		}
		d = append(d, Diff{What: "massive mode returns an error iff simple mode does", Real: "massive: " + classify(massive.err), Model: "simple: " + classify(simple.err)})
	}
	if simple.err == nil && massive.err == nil {
		switch c.Op {
		case "text", "dry", "json", "yaml", "dry+json":
			ok := false
			if c.Op == "yaml" {
				a := strings.Split(string(simple.out), "---\n")
				b := strings.Split(string(massive.out), "---\n")
				sort.Strings(a)
				sort.Strings(b)
				ok = strings.Join(a, "\x00") == strings.Join(b, "\x00")
			} else {
				blocks := blocksOf(c.Op, simple.out, c.Blocks)
				ok = blocks != nil && isBlockPermutation(string(massive.out), blocks)
			}
			if !ok {
				d = append(d, Diff{What: c.Op + ": massive output is not a permutation of the simple output's intact per-root blocks", Real: hx(massive.out), Model: hx(simple.out)})
			}
		case "toml":
			if !bytes.Equal(simple.out, massive.out) {
				d = append(d, Diff{What: "toml output differs", Real: hx(massive.out), Model: hx(simple.out)})
			}
		case "walk":
			a := append([]string{}, simple.rows...)
			b := append([]string{}, massive.rows...)
			sort.Strings(a)
			sort.Strings(b)
			if strings.Join(a, "\x01") != strings.Join(b, "\x01") {
				d = append(d, Diff{What: "walk: massive mode visits a different multiset of nodes", Real: hxs(strings.Join(massive.rows, "\n")), Model: hxs(strings.Join(simple.rows, "\n"))})
			} else {
				// order preserved inside a root: each root block of the simple sequence is a subsequence of the massive one
				i := 0
				for _, n := range c.Blocks {
					if i+n > len(simple.rows) {
						break
					}
					blk := simple.rows[i : i+n]
					i += n
					j := 0
					for _, r := range massive.rows {
						if j < len(blk) && r == blk[j] {
							j++
						}
					}
					if j != len(blk) {
						d = append(d, Diff{What: "walk: order inside a root not preserved", Real: hxs(strings.Join(massive.rows, "\n")), Model: hxs(strings.Join(blk, "\n"))})
						break
					}
				}
			}
		case "mkdir":
			if simple.snap != massive.snap {
				d = append(d, Diff{What: "mkdir: massive mode leaves a different file system", Real: massive.snap, Model: simple.snap})
			}
		}
	}
	if c.Op == "verify" && simple.snap != massive.snap {
		d = append(d, Diff{What: "verify: verdict differs", Real: massive.snap, Model: simple.snap})
	}
	if leak := settle(before); leak != "" {
		d = append(d, Diff{What: "goroutines remain after a massive-mode call returned", Real: leak, Model: "none"})
	}
	if massive.lb != nil && massive.lb.lateWrites() > 0 {
		if massive.err == nil {
			d = append(d, Diff{What: "massive mode returned nil but kept writing afterwards: the output was incomplete at return", Real: fmt.Sprint(massive.lb.lateWrites(), " late writes"), Model: "all output written before a nil return"})
		} else {
			noteKnown("c11.workers-outlive-error-return")
		}
	}
	return d
}

var knownHits = struct {
	sync.Mutex
	m map[string]int
}{m: map[string]int{}}

func noteKnown(id string) {
	knownHits.Lock()
	knownHits.m[id]++
	knownHits.Unlock()
}

// settle waits (up to ~1 s) for the goroutine count to come back to the baseline; returns a dump of gtree goroutines otherwise.
func settle(before int) string {
	first := settleFor(before, time.Second)
	if first == "" {
		return ""
	}
	// on a loaded machine a goroutine that is merely slow must not be taken for one that is stuck:
	// give what is left a few more seconds before calling it a leak
	return settleFor(before, 4*time.Second)
}

func settleFor(before int, d time.Duration) string {
	deadline := time.Now().Add(d)
	for time.Now().Before(deadline) {
		if runtime.NumGoroutine() <= before {
			return ""
		}
		time.Sleep(2 * time.Millisecond)
	}
	buf := make([]byte, 1<<20)
	n := runtime.Stack(buf, true)
	var leaked []string
	for _, g := range strings.Split(string(buf[:n]), "\n\n") {
		if strings.Contains(g, "ddddddO/gtree") && !strings.Contains(g, "verifharness") {
			lines := strings.Split(g, "\n")
			if len(lines) > 4 {
				lines = lines[:4]
			}
			leaked = append(leaked, strings.Join(lines, " | "))
		}
	}
	if len(leaked) == 0 {
		return ""
	}
	return fmt.Sprintf("%d gtree goroutines: %s", len(leaked), strings.Join(leaked, " ;; "))
}

func forestSizes(f []*Tree) []int {
	var out []int
	for _, t := range f {
		out = append(out, addMirror(t).Size())
	}
	return out
}

func runC10(ctx *Ctx) *Report {
	rep := NewReport("C10")
	n := 4
	if ctx.Thorough {
		n = 5
	}
	ops := []string{"text", "json", "yaml", "dry", "walk", "mkdir", "verify"}
	var cases []massiveCase
	sps := coveringSpellings()
	k := 0
	for fi, f := range forestsUpTo(n, []string{"a", "b.go"}) {
		if len(f) < 2 && fi%4 != 0 {
			continue // single-root documents are the uninteresting case for root order
		}
		sp := sps[fi%len(sps)]
		doc := spell(f, sp)
		for oi, op := range ops {
			if !ctx.Thorough && (fi+oi)%3 != 0 {
				continue
			}
			if (op == "mkdir" || op == "verify") && !distinctRoots(f) {
				continue
			}
			k++
			c := massiveCase{Kind: "massive", Op: op, Doc: hx(doc), Text: docText(doc), Blocks: forestSizes(f), Sched: int64(ctx.Seed*1000 + int64(k)), Fmt: lineFormats()[k%len(lineFormats())], Exts: extLists[k%len(extLists)]}
			if k%5 == 0 {
				c.Procs = []int{1, 2, 4}[k%3]
			}
			cases = append(cases, c)
		}
	}
	// many roots (more blocks than workers), repeated under several schedules
	big := []*Tree{}
	for i := 0; i < 40; i++ {
		big = append(big, &Tree{Name: fmt.Sprintf("r%d", i), Kids: []*Tree{{Name: "x", Kids: []*Tree{{Name: "y.go"}}}, {Name: fmt.Sprintf("z%d", i%3)}}})
	}
	for s := 0; s < 6 || (ctx.Thorough && s < 60); s++ {
		sp := sps[s%len(sps)]
		doc := spell(big, sp)
		for _, op := range ops {
			cases = append(cases, massiveCase{Kind: "massive", Op: op, Doc: hx(doc), Text: "<40 roots>", Blocks: forestSizes(big), Sched: int64(7000 + s), Fmt: fmtDefault, Exts: []string{".go"}, Procs: []int{0, 1, 2, 16}[s%4]})
		}
	}
	// many heading roots with list rows three and four levels deep, in several notations: what a worker learns
	// about the indentation stays true while other workers parse headings
	{
		var hd []*Tree
		for i := 0; i < 30; i++ {
			t := &Tree{Name: fmt.Sprintf("h%d", i)}
			for j := 0; j < 6; j++ {
				t.Kids = append(t.Kids, &Tree{Name: fmt.Sprintf("a%d", j), Kids: []*Tree{{Name: "b", Kids: []*Tree{{Name: "c", Kids: []*Tree{{Name: "d.go"}}}, {Name: "c2"}}}, {Name: "b2"}}})
			}
			hd = append(hd, t)
		}
		for s, si := range []int{10, 12, 20, 22} {
			doc := spell(hd, sps[si])
			for r := 0; r < 2 || (ctx.Thorough && r < 10); r++ {
				for _, op := range []string{"text", "walk", "json"} {
					cases = append(cases, massiveCase{Kind: "massive", Op: op, Doc: hx(doc), Text: "<30 heading roots, 4 levels>", Blocks: forestSizes(hd), Sched: int64(7500 + 10*s + r), Fmt: fmtDefault, Procs: []int{0, 16, 4}[(s+r)%3]})
				}
			}
		}
	}
	// roots whose rendering exceeds any internal buffer (> 4 KiB per root), many at once
	var fat []*Tree
	for i := 0; i < 24; i++ {
		t := &Tree{Name: fmt.Sprintf("fat%d", i)}
		for j := 0; j < 120; j++ {
			t.Kids = append(t.Kids, &Tree{Name: fmt.Sprintf("child-%02d-%03d-%s", i, j, strings.Repeat("x", 30))})
		}
		fat = append(fat, t)
	}
	for s := 0; s < 4 || (ctx.Thorough && s < 30); s++ {
		doc := spell(fat, plainSpelling)
		for _, op := range []string{"text", "dry", "json"} {
			cases = append(cases, massiveCase{Kind: "massive", Op: op, Doc: hx(doc), Text: "<24 roots of ~6 KiB>", Sched: int64(8000 + s), Fmt: fmtDefault, Procs: []int{0, 4, 16, 2}[s%4]})
		}
	}
	// malformed stream: error iff error
	small := forestsUpTo(3, []string{"a", "b"})
	for fi, f := range small {
		doc0 := string(spell(f, plainSpelling))
		for mi, pre := range []string{"  - early\n", "    * early\n", "\t- early\n"} {
			k++
			cases = append(cases, massiveCase{Kind: "massive", Op: ops[(k+mi)%4], Doc: hxs(pre + doc0), Text: docText([]byte(pre + doc0)), Sched: int64(k), Fmt: fmtDefault, Known: "M5-item-before-root"})
		}
		if len(f) < 2 && fi%2 == 0 {
			continue
		}
		doc := string(spell(f, plainSpelling))
		rows := strings.Split(strings.TrimSuffix(doc, "\n"), "\n")
		for i, r := range rows {
			indent := r[:len(r)-len(strings.TrimLeft(r, " \t"))]
			for ji, inj := range injections {
				if !ctx.Thorough && (fi+i+ji)%4 != 0 {
					continue
				}
				bad := inj.row(indent, "  ")
				repl := append(append([]string{}, rows[:i]...), bad)
				repl = append(repl, rows[i+1:]...)
				d := strings.Join(repl, "\n") + "\n"
				k++
				cases = append(cases, massiveCase{Kind: "massive", Op: ops[k%4], Doc: hxs(d), Text: docText([]byte(d)), Sched: int64(k), Fmt: fmtDefault, Known: inj.class})
			}
		}
	}
	// many good roots, then (or before, or in between) a malformed one: massive rejects iff simple rejects,
	// whichever worker gets the malformed block and whatever it processed before
	{
		good := string(spell(big[:30], plainSpelling))
		for ji, inj := range injections {
			bad := "- bad\n" + inj.row("  ", "  ") + "\n  - tail\n"
			bad0 := "- bad\n" + inj.row("", "  ") + "\n  - tail\n" // the malformed row comes right after the root row
			h := strings.Index(good[len(good)/2:], "\n- ")
			cut := len(good)/2 + h + 1
			for _, d := range []string{good + bad, bad + good, good[:cut] + bad + good[cut:], good + bad0, good[:cut] + bad0 + good[cut:]} {
				for rep := 0; rep < 2 || (ctx.Thorough && rep < 8); rep++ {
					k++
					cases = append(cases, massiveCase{Kind: "massive", Op: ops[(k+ji)%4], Doc: hxs(d), Text: "<30 good roots and one malformed: " + inj.class + ">", Sched: int64(k), Fmt: fmtDefault, Known: inj.class, Procs: []int{0, 1, 2, 16}[k%4]})
				}
			}
		}
	}
	// a slow writer: everything must have been written when a nil result is returned
	for s := 0; s < 3 || (ctx.Thorough && s < 12); s++ {
		doc := spell(big[:8], plainSpelling)
		for _, op := range []string{"text", "json", "yaml", "dry"} {
			k++
			cases = append(cases, massiveCase{Kind: "massive", Op: op, Doc: hx(doc), Text: "<8 roots, slow writer>", Sched: int64(k), Fmt: fmtDefault, SlowUS: 300})
		}
	}
	// an unusual but accepted option combination
	for s := 0; s < 4; s++ {
		doc := spell(big[:6], coveringSpellings()[s])
		cases = append(cases, massiveCase{Kind: "massive", Op: "dry+json", Doc: hx(doc), Text: "<6 roots, dry-run + json>", Sched: int64(9100 + s), Fmt: fmtDefault, Exts: []string{".go"}})
		cases = append(cases, massiveCase{Kind: "massive", Op: "dry+json", Doc: hxs("- a\n  - x/y\n- b\n"), Text: "dry-run + json, hostile name", Sched: int64(9200 + s), Fmt: fmtDefault})
	}
	// dry run validates the names in both modes
	for s, d := range []string{"- a\n  - x/y\n- b\n", "- ..\n", "- a\n  - .\n- b\n  - c\n", "- ok\n- a\n  - b\n    - ../../up\n", "# h\n- a/b\n"} {
		for r := 0; r < 2; r++ {
			cases = append(cases, massiveCase{Kind: "massive", Op: "dry", Doc: hxs(d), Text: d, Sched: int64(9300 + 10*s + r), Fmt: fmtDefault, Exts: []string{".go"}, Known: "hostile-name", Procs: []int{0, 1}[r]})
		}
	}
	// roots that each look fine but disagree about the indent unit (same indent character): the document's
	// unit is the first one seen, so the simple mode rejects, and so must the massive mode whichever block
	// a worker parses first
	for s, d := range []string{"- a\n  - b\n- c\n    - d\n", "- a\n    - b\n- c\n  - d\n", "- a\n  - b\n  - b2\n- c\n    - d\n        - e\n- f\n  - g\n",
		"- a\n\t- b\n- c\n\t\t- d\n", "- a\n   - b\n- c\n  - d\n- e\n   - f\n", "- p\n- a\n  - b\n- q\n- c\n      - d\n"} {
		for r := 0; r < 10 || (ctx.Thorough && r < 40); r++ {
			cases = append(cases, massiveCase{Kind: "massive", Op: ops[(s+r)%5], Doc: hxs(d), Text: d, Sched: int64(9500 + 100*s + r), Fmt: fmtDefault, Known: "unit-switch-between-roots", Procs: []int{0, 2, 16, 1}[r%4]})
		}
	}
	// rows that end in CR CR LF: the name keeps one CR, in both modes (D19)
	for s, d := range []string{"- a\r\r\n  - b\r\r\n- c\r\r\n", "- a\r\n- b\r\r\n  - c\r\n", "# h\r\r\n- x\r\n- y\r\r\n", "- a\r\r\r\n  - b\r\n"} {
		for oi, op := range []string{"text", "json", "walk", "dry"} {
			cases = append(cases, massiveCase{Kind: "massive", Op: op, Doc: hxs(d), Text: d, Sched: int64(9700 + 10*s + oi), Fmt: fmtDefault, Exts: []string{".go"}})
		}
	}
	// the last row of a root's block (the row before the next root, before the blank rows in front of it, or the
	// last row of the input) has a name that ends in a space or a tab, or that is nothing but blanks after the
	// bullet: blanks at the end of a row belong to the name in both modes
	{
		tails := []string{" ", "\t", "  ", " \t", "\t ", "   "}
		blankNames := []string{" ", "\t", "  ", " \t "}
		mops := []string{"text", "json", "walk", "dry", "yaml", "mkdir", "verify"}
		made := 0
		for try := 0; made < pick(ctx.Thorough, 400, 36) && try < 5000; try++ {
			f := randForest(ctx.Rng, 2+ctx.Rng.Intn(10), []string{"plain", "plain", "blanks"}, 4, rep.Dist)
			for ri, t := range f {
				last := t
				for len(last.Kids) > 0 {
					last = last.Kids[len(last.Kids)-1]
				}
				switch r := ctx.Rng.Intn(5); {
				case r == 0 && ri > 0:
					// this root's block ends as it is
				case r == 1 && last != t:
					last.Name = blankNames[ctx.Rng.Intn(len(blankNames))]
				default:
					last.Name += tails[ctx.Rng.Intn(len(tails))]
				}
			}
			sp := plainSpelling
			switch ctx.Rng.Intn(5) {
			case 0:
				sp = Spelling{IndentChar: '\t', Unit: 1, Bullets: "-*", FinalNL: ctx.Rng.Intn(2) == 0}
			case 1:
				sp = Spelling{IndentChar: ' ', Unit: 4, Bullets: "+", FinalNL: true, BlankEvery: 1 + ctx.Rng.Intn(3), BlankRow: []string{"", "  ", "\t"}[ctx.Rng.Intn(3)]}
			case 2:
				sp = Spelling{IndentChar: ' ', Unit: 2, Bullets: "-", FinalNL: ctx.Rng.Intn(2) == 0, CRLF: true}
			case 3:
				sp = Spelling{IndentChar: ' ', Unit: 2, Bullets: "*", FinalNL: false}
			}
			if !representable(f, sp) {
				continue
			}
			doc := spell(f, sp)
			op := mops[made%len(mops)]
			if (op == "mkdir" || op == "verify") && !distinctRoots(f) {
				op = "text"
			}
			made++
			k++
			cases = append(cases, massiveCase{Kind: "massive", Op: op, Doc: hx(doc), Text: docText(doc), Sched: int64(9800 + made), Fmt: lineFormats()[made%len(lineFormats())], Exts: extLists[made%len(extLists)], Procs: []int{0, 0, 2, 16}[made%4]})
		}
		for s, d := range []string{"- x\n  - y \n- z\n", "- x\n  - k\n  - k \n- z\n", "- x\n  -  \n- z\n  - w\t\n", "- a\n  - b \n\n  \n- c\n", "- only \n", "- r\n  - a\n    -  \t", "# h\n- x \n# g\n- y\t\n"} {
			for oi, op := range []string{"text", "json", "walk", "dry"} {
				cases = append(cases, massiveCase{Kind: "massive", Op: op, Doc: hxs(d), Text: d, Sched: int64(9900 + 10*s + oi), Fmt: fmtDefault, Exts: []string{".go"}})
			}
		}
	}
	// a failing reader: error iff error
	{
		doc := spell(big[:12], plainSpelling)
		for at := 1; at <= len(doc)+1; at += 7 {
			for _, op := range []string{"text", "json", "walk", "dry"} {
				k++
				if !ctx.Thorough && k%3 != 0 {
					continue
				}
				cases = append(cases, massiveCase{Kind: "massive", Op: op, Doc: hx(doc), Text: "<12 roots, failing reader>", Sched: int64(k), Fmt: fmtDefault, ReadFail: at, Known: "reader-failure"})
			}
		}
	}
	// blank / degenerate documents
	for _, d := range []string{"", "\n", "\n\n- a\n", "  \n- a\n  - b\n\n- c\n", "  - x\n- a\n"} {
		for _, op := range []string{"text", "json", "walk", "dry"} {
			f := 0
			if strings.Contains(d, "- a") {
				f = 1
			}
			var blocks []int
			if d == "\n\n- a\n" {
				blocks = []int{1}
			} else if f == 1 && !strings.HasPrefix(d, "  - x") {
				blocks = []int{2, 1}
			}
			cases = append(cases, massiveCase{Kind: "massive", Op: op, Doc: hxs(d), Text: d, Blocks: blocks, Sched: 3, Fmt: fmtDefault})
		}
	}
	m := NewModel()
	defer m.Close()
	// the splitter alone, against its model, on every document of this suite and on random ones
	{
		seen := map[string]bool{}
		var docs [][]byte
		for _, c := range cases {
			if !seen[c.Doc] {
				seen[c.Doc] = true
				docs = append(docs, unhx(c.Doc))
			}
		}
		pieces := []string{"- a\n", "  - b\n", "    - c\n", "\t- t\n", "# h\n", "## h2\n", "#\n", "\n", "  \n", "* s\n", "+ p\n", "-\n", "-x\n", "x\n", " # y\n", "\r\n", "- a", "#", "- # z\n", "　\n", "\t\n", "1. n\n"}
		for k := 0; k < 3000 || (ctx.Thorough && k < 60000); k++ {
			var sb strings.Builder
			for j, n := 0, 1+ctx.Rng.Intn(9); j < n; j++ {
				sb.WriteString(pieces[ctx.Rng.Intn(len(pieces))])
			}
			if !seen[hxs(sb.String())] {
				seen[hxs(sb.String())] = true
				docs = append(docs, []byte(sb.String()))
			}
		}
		docs = append(docs, []byte("- "+strings.Repeat("x", 70000)+"\n- b\n"), []byte("- a\n  - "+strings.Repeat("y", 65534)+"\n# h\n- c\n"))
		for _, d := range docs {
			rep.Record(map[string]string{"kind": "split", "doc_hex": hx(d)}, "split:"+hx(d), len(d) > 8, runSplit(m, d))
			rep.Count("split")
		}
	}
	for _, c := range cases {
		if massiveHangs >= 2 {
			rep.Notes = append(rep.Notes, "stopped early: massive-mode calls hang")
			break
		}
		if rep.Full() {
			rep.Notes = append(rep.Notes, "stopped early: 10 violations collected")
			break
		}
		diffs := runMassive(m, c)
		b, _ := json.Marshal(c)
		rep.Record(c, string(b), len(c.Blocks) >= 2 || c.Known != "", diffs)
		rep.Count("op:" + c.Op + ifs(c.Known != "", "/malformed", ""))
	}
	// a NewRoot/Add tree that has already been through other operations (which leave branch strings and paths on
	// the nodes), then text output / walk / dry-run Mkdir WITH the massive option: one root, so the result is the
	// simple mode's byte for byte, and it is what the model says for the tree
	{
		firsts := []string{"output", "output-fmt", "output-massive", "walk", "walk-massive", "walkiter", "json", "verify", "dry-rejected", "output+walk", "walkiter-break"}
		var rcs []rootReuseCase
		for k := 0; k < pick(ctx.Thorough, 1500, 120); k++ {
			f := randForest(ctx.Rng, 2+ctx.Rng.Intn(14), []string{"plain", "plain", "bullets", "quotes"}, 1, rep.Dist)
			var seq []string
			for j, n := 0, 1+ctx.Rng.Intn(3); j < n; j++ {
				seq = append(seq, firsts[ctx.Rng.Intn(len(firsts))])
			}
			rcs = append(rcs, rootReuseCase{Kind: "massive-root-reuse", Tree: f[0].Enc(), First: strings.Join(seq, ","), Fmt: lineFormats()[k%len(lineFormats())], Exts: extLists[k%len(extLists)], Sched: int64(9950 + k), Procs: []int{0, 0, 1, 4}[k%4]})
		}
		for fi, first := range append([]string{"none"}, firsts...) {
			t := &Tree{Name: "root", Kids: []*Tree{{Name: "alpha", Kids: []*Tree{{Name: "a1"}, {Name: "a2.go"}}}, {Name: "beta", Kids: []*Tree{{Name: "b1", Kids: []*Tree{{Name: "deep"}}}}}, {Name: "gamma"}}}
			rcs = append(rcs, rootReuseCase{Kind: "massive-root-reuse", Tree: t.Enc(), First: first, Fmt: fmtDefault, Exts: []string{".go"}, Sched: int64(9940 + fi)})
		}
		for _, c := range rcs {
			if massiveHangs >= 2 || rep.Full() {
				break
			}
			diffs := runRootReuseMassive(m, c)
			b, _ := json.Marshal(c)
			rep.Record(c, string(b), true, diffs)
			rep.Count("root-reuse/massive")
		}
	}
	// known findings (committed in known_findings.json): replayed under many schedules; a hit is reported
	// as KNOWN-FINDING by ./check, not as a violation
	for id, doc := range map[string]string{
		"c10.indent-char-switch-between-roots": "- a\n\t- b\n\t- b2\n- c\n - d\n - d2\n- e\n\t- f\n",
		"c10.list-roots-before-heading-roots":  "- p\n- q\n# r\n- a\n# s\n- b\n",
	} {
		for s := 0; s < 60; s++ {
			c := massiveCase{Kind: "massive", Op: "text", Doc: hxs(doc), Sched: int64(900 + s), Fmt: fmtDefault, Procs: []int{0, 2, 16}[s%3]}
			if len(runMassive(m, c)) > 0 {
				rep.Known[id]++
			}
		}
	}
	if knownMkdirPreexisting() {
		rep.Known["c10.mkdir-preexisting-root"]++
	}
	knownHits.Lock()
	for k, v := range knownHits.m {
		rep.Known[k] += v
	}
	knownHits.Unlock()
	return rep
}

// knownMkdirPreexisting: with one root already present simple mode creates nothing, massive mode creates the other roots.
func knownMkdirPreexisting() bool {
	massiveMu.Lock()
	defer massiveMu.Unlock()
	doc := []byte("- r0\n  - a\n- r1\n  - b\n- r2\n  - c\n- r3\n")
	run := func(massive bool) string {
		jail := newJail()
		defer os.RemoveAll(jail)
		t := filepath.Join(jail, "t")
		os.MkdirAll(filepath.Join(t, "r1"), 0o755)
		opts := []gtree.Option{gtree.WithTargetDir(t)}
		if massive {
			opts = append(opts, gtree.WithMassive(context.Background()))
		}
		err := gtree.MkdirFromMarkdown(bytes.NewReader(doc), opts...)
		time.Sleep(20 * time.Millisecond)
		var snap []string
		for _, e := range snapshot(jail) {
			p := strings.SplitN(e, ":", 2)
			snap = append(snap, strings.TrimPrefix(string(unhx(p[0])), jail))
		}
		return strings.Join(snap, ",") + " e=" + classify(err)
	}
	for i := 0; i < 10; i++ {
		if run(false) != run(true) {
			return true
		}
	}
	return false
}

// ---------------------------------------------------------------- C11

type faultCase struct {
	Kind     string `json:"kind"`
	Op       string `json:"op"`
	Doc      string `json:"doc_hex"`
	Text     string `json:"doc_text,omitempty"`
	Sched    int64  `json:"sched_seed"`
	Procs    int    `json:"gomaxprocs"`
	Fault    string `json:"fault"` // none | reader | writer | callback | cancel-before | cancel-after-bytes | cancel-timer
	At       int    `json:"at"`
	FromRoot bool   `json:"from_root,omitempty"`
}

// cancelReader cancels the context after delivering `at` bytes.
type cancelReader struct {
	data   []byte
	at     int
	n      int
	cancel context.CancelFunc
}

func (r *cancelReader) Read(p []byte) (int, error) {
	if r.n >= r.at && r.cancel != nil {
		r.cancel()
		r.cancel = nil
	}
	if len(r.data) == 0 {
		return 0, errEOF()
	}
	k := 1
	if len(p) < k {
		k = len(p)
	}
	k = copy(p[:k], r.data)
	r.data = r.data[k:]
	r.n += k
	return k, nil
}

func errEOF() error { return io.EOF }

// streamReader delivers a first root and then child rows of that same block, one row per Read and slowly,
// for `lasts`; it cancels the context after `at` rows. A splitter that only looks at the context when it
// has a block to send would go on reading this input long after the call has returned.
type streamReader struct {
	head   []byte
	at     int
	rows   int
	cancel context.CancelFunc
	end    time.Time
	reads  atomic.Int64
}

func (r *streamReader) Read(p []byte) (int, error) {
	r.reads.Add(1)
	if len(r.head) > 0 {
		k := copy(p, r.head)
		r.head = r.head[k:]
		return k, nil
	}
	if time.Now().After(r.end) {
		return 0, io.EOF
	}
	time.Sleep(200 * time.Microsecond)
	r.rows++
	if r.rows == r.at && r.cancel != nil {
		r.cancel()
	}
	return copy(p, "  - c\n"), nil
}

func runFault(c faultCase) []Diff {
	massiveMu.Lock()
	defer massiveMu.Unlock()
	doc := unhx(c.Doc)
	if c.Procs > 0 {
		defer runtime.GOMAXPROCS(runtime.GOMAXPROCS(c.Procs))
	}
	before := runtime.NumGoroutine()
	done := installSched(c.Sched)
	defer done()
	ctx, cancel := context.WithCancel(context.Background())
	defer cancel()
	var reader interface{ Read([]byte) (int, error) } = bytes.NewReader(doc)
	w := &faultWriter{failAt: -1}
	cbFail := -1
	switch c.Fault {
	case "reader":
		reader = &faultReader{data: doc[:min(c.At, len(doc))], fail: true, chunk: 7}
	case "writer":
		w.failAt = c.At
	case "callback":
		cbFail = c.At
	case "cancel-before":
		cancel()
	case "cancel-cause-before":
		// a context ended with a cause still is a cancelled context: errors.Is(err, context.Canceled)
		c2, cancel2 := context.WithCancelCause(ctx)
		cancel2(errors.New("the caller's own reason"))
		ctx = c2
	case "deadline-cause-before":
		c2, cancel2 := context.WithTimeoutCause(ctx, time.Nanosecond, errors.New("the caller's own deadline reason"))
		defer cancel2()
		time.Sleep(time.Millisecond)
		ctx = c2
	case "cancel-after-bytes":
		reader = &cancelReader{data: doc, at: c.At, cancel: cancel}
	case "cancel-timer":
		go func() { time.Sleep(time.Duration(c.At) * 20 * time.Microsecond); cancel() }()
	case "cancel-stream":
		reader = &streamReader{head: doc, at: c.At, cancel: cancel, end: time.Now().Add(4 * time.Second)}
	}
	type ret struct{ err error }
	ch := make(chan ret, 1)
	var cbMu sync.Mutex
	cbCount := 0
	go func() {
		var err error
		opts := []gtree.Option{gtree.WithMassive(ctx)}
		switch c.Op {
		case "text":
			err = gtree.OutputFromMarkdown(w, reader, opts...)
		case "json":
			err = gtree.OutputFromMarkdown(w, reader, append(opts, gtree.WithEncodeJSON())...)
		case "yaml":
			err = gtree.OutputFromMarkdown(w, reader, append(opts, gtree.WithEncodeYAML())...)
		case "dry":
			err = gtree.OutputFromMarkdown(w, reader, append(opts, gtree.WithDryRun())...)
		case "walk":
			err = gtree.WalkFromMarkdown(reader, func(wn *gtree.WalkerNode) error {
				cbMu.Lock()
				cbCount++
				k := cbCount
				cbMu.Unlock()
				if cbFail >= 0 && k-1 >= cbFail {
					return errCallback
				}
				return nil
			}, opts...)
		case "mkdir":
			jail := newJail()
			defer os.RemoveAll(jail)
			err = gtree.MkdirFromMarkdown(reader, append(opts, gtree.WithTargetDir(filepath.Join(jail, "t")), gtree.WithFileExtensions([]string{"a", ".go"}))...)
		case "verify":
			jail := newJail()
			defer os.RemoveAll(jail)
			err = gtree.VerifyFromMarkdown(reader, append(opts, gtree.WithTargetDir(filepath.Join(jail, "t")))...)
		case "rtext":
			err = gtree.OutputFromRoot(w, buildRoot(&Tree{Name: "r", Kids: []*Tree{{Name: "a"}, {Name: "b"}}}), opts...)
		case "rwalk":
			err = gtree.WalkFromRoot(buildRoot(&Tree{Name: "r", Kids: []*Tree{{Name: "a"}, {Name: "b"}}}), func(wn *gtree.WalkerNode) error {
				if cbFail >= 0 {
					return errCallback
				}
				return nil
			}, opts...)
		case "rmkdir":
			jail := newJail()
			defer os.RemoveAll(jail)
			err = gtree.MkdirFromRoot(buildRoot(&Tree{Name: "r", Kids: []*Tree{{Name: "a"}}}), append(opts, gtree.WithTargetDir(filepath.Join(jail, "t")))...)
		}
		ch <- ret{err}
	}()
	var d []Diff
	var err error
	select {
	case r := <-ch:
		err = r.err
	case <-time.After(10 * time.Second):
		buf := make([]byte, 1<<18)
		n := runtime.Stack(buf, true)
		return []Diff{{What: "massive-mode call did not return within 10 s", Real: string(buf[:n]), Model: "returns in bounded time"}}
	}
	cls := classify(err)
	wFailed, _ := w.markReturned()
	cbMu.Lock()
	cbSeen := cbCount
	cbMu.Unlock()
	switch c.Fault {
	case "cancel-before", "cancel-cause-before", "deadline-cause-before":
		if cls != "ctx" {
			d = append(d, Diff{What: "context cancelled before the call: the context's error must be returned", Real: cls, Model: "ctx"})
		}
	case "cancel-after-bytes", "cancel-timer":
		// cancelled before finishing ⇒ ctx error; finished first ⇒ nil (or the document's own error)
		if err == nil && c.Fault == "cancel-after-bytes" && c.At < len(doc) {
			d = append(d, Diff{What: "context cancelled before the input was consumed, but the call returned nil", Real: "nil", Model: "ctx"})
		}
	case "cancel-stream":
		if cls != "ctx" {
			d = append(d, Diff{What: "context cancelled while the input was still streaming: the context's error must be returned", Real: cls, Model: "ctx"})
		}
		sr := reader.(*streamReader)
		r0 := sr.reads.Load()
		if leak := settle(before + 0); leak == "" {
			if r1 := sr.reads.Load(); r1 > r0+2 {
				d = append(d, Diff{What: "the caller's reader is still being read after the cancelled call returned", Real: fmt.Sprintf("%d reads after the return", r1-r0), Model: "none"})
			}
		}
	case "reader":
		if err == nil {
			d = append(d, Diff{What: "reader failed but the call returned nil", Real: "nil", Model: "non-nil"})
		}
	case "writer":
		if err == nil && wFailed {
			d = append(d, Diff{What: "a write failed but the call returned nil", Real: "nil", Model: "non-nil"})
		}
	case "callback":
		if err == nil && cbSeen > cbFail && cbFail >= 0 {
			d = append(d, Diff{What: "the callback failed but the call returned nil", Real: "nil", Model: "non-nil"})
		}
	}
	if leak := settle(before + 0); leak != "" {
		d = append(d, Diff{What: "goroutines remain after a massive-mode call returned (1 s settling period)", Real: leak, Model: "none"})
	}
	if w.lateWrites() > 0 {
		noteKnown("c11.workers-outlive-error-return")
	}
	return d
}

func runC11(ctx *Ctx) *Report {
	rep := NewReport("C11")
	var cases []faultCase
	// documents with 0..many failing blocks at any positions
	mkDoc := func(nblocks int, failing map[int]string) []byte {
		var sb strings.Builder
		for i := 0; i < nblocks; i++ {
			fmt.Fprintf(&sb, "- r%d\n  - a\n", i)
			switch failing[i] {
			case "format":
				sb.WriteString("  x\n")
			case "empty":
				sb.WriteString("  -\n")
			case "jump":
				sb.WriteString("        - deep\n")
			case "name":
				sb.WriteString("  - ..\n")
			}
			sb.WriteString("  - b\n")
		}
		return []byte(sb.String())
	}
	kinds := []string{"format", "empty", "jump", "name"}
	ops := []string{"text", "json", "yaml", "dry", "walk", "mkdir", "verify"}
	k := 0
	nfailMax := 12
	for nfail := 0; nfail <= nfailMax; nfail++ {
		reps := 3
		if ctx.Thorough {
			reps = 12
		}
		for r := 0; r < reps; r++ {
			failing := map[int]string{}
			nb := 14
			for len(failing) < nfail {
				failing[ctx.Rng.Intn(nb)] = kinds[ctx.Rng.Intn(len(kinds))]
			}
			doc := mkDoc(nb, failing)
			for _, op := range ops {
				k++
				if !ctx.Thorough && k%2 == 0 {
					continue
				}
				cases = append(cases, faultCase{Kind: "massive-fault", Op: op, Doc: hx(doc), Text: fmt.Sprintf("%d blocks, %d failing", nb, nfail), Sched: ctx.Seed*100000 + int64(k), Fault: "none", Procs: []int{0, 1, 2, 4, 16}[k%5]})
			}
		}
	}
	// cancellation in the middle of one long, slowly streaming block
	for k, op := range []string{"text", "walk", "json", "mkdir"} {
		if k < 3 || ctx.Thorough {
			cases = append(cases, faultCase{Kind: "massive-fault", Op: op, Doc: hxs("- r0\n  - a\n"), Text: "1 streaming block", Sched: int64(k), Fault: "cancel-stream", At: []int{1, 7, 60, 300}[k]})
		}
	}
	// reader / writer / callback failure at every index, cancellation at every input offset of a small document
	doc := mkDoc(4, map[int]string{})
	for at := 0; at <= len(doc); at += 1 {
		if !ctx.Thorough && at%3 != 0 {
			continue
		}
		for _, op := range []string{"text", "json", "walk", "mkdir"} {
			k++
			cases = append(cases, faultCase{Kind: "massive-fault", Op: op, Doc: hx(doc), Text: "4 blocks", Sched: int64(k), Fault: "reader", At: at})
			cases = append(cases, faultCase{Kind: "massive-fault", Op: op, Doc: hx(doc), Text: "4 blocks", Sched: int64(k), Fault: "cancel-after-bytes", At: at, Procs: []int{0, 1, 4}[k%3]})
		}
	}
	for at := 0; at < 14; at++ {
		for _, op := range []string{"text", "json", "yaml", "dry"} {
			k++
			cases = append(cases, faultCase{Kind: "massive-fault", Op: op, Doc: hx(doc), Text: "4 blocks", Sched: int64(k), Fault: "writer", At: at})
		}
		k++
		cases = append(cases, faultCase{Kind: "massive-fault", Op: "walk", Doc: hx(doc), Text: "4 blocks", Sched: int64(k), Fault: "callback", At: at})
		cases = append(cases, faultCase{Kind: "massive-fault", Op: "text", Doc: hx(mkDoc(30, map[int]string{})), Text: "30 blocks", Sched: int64(k), Fault: "cancel-timer", At: at})
	}
	for _, op := range append(ops, "rtext", "rwalk", "rmkdir") {
		for s := 0; s < 3; s++ {
			k++
			cases = append(cases, faultCase{Kind: "massive-fault", Op: op, Doc: hx(doc), Text: "4 blocks", Sched: int64(k), Fault: "cancel-before"})
		}
	}
	cases = append(cases, faultCase{Kind: "massive-fault", Op: "rwalk", Doc: "-", Sched: 5, Fault: "callback", At: 0})
	for _, op := range append(ops, "rtext", "rmkdir") {
		k++
		cases = append(cases, faultCase{Kind: "massive-fault", Op: op, Doc: hx(doc), Text: "4 blocks", Sched: int64(k), Fault: "cancel-cause-before"})
		cases = append(cases, faultCase{Kind: "massive-fault", Op: op, Doc: hx(doc), Text: "4 blocks", Sched: int64(k), Fault: "deadline-cause-before"})
	}
	// many roots with file leaves through massive mkdir (the race detector watches the workers)
	{
		var sb strings.Builder
		for i := 0; i < 40; i++ {
			fmt.Fprintf(&sb, "- m%d\n  - a\n  - x.go\n  - d\n    - y.go\n    - a\n", i)
		}
		for s := 0; s < 3; s++ {
			k++
			cases = append(cases, faultCase{Kind: "massive-fault", Op: "mkdir", Doc: hxs(sb.String()), Text: "40 roots with files", Sched: int64(k), Fault: "none", Procs: []int{0, 4, 16}[s]})
		}
	}
	for _, c := range cases {
		if massiveHangs >= 2 {
			rep.Notes = append(rep.Notes, "stopped early: massive-mode calls hang")
			break
		}
		if rep.Full() {
			rep.Notes = append(rep.Notes, "stopped early: 10 violations collected")
			break
		}
		diffs := runFault(c)
		b, _ := json.Marshal(c)
		rep.Record(c, string(b), c.Fault != "none" || strings.Contains(c.Text, "failing") && !strings.Contains(c.Text, " 0 failing"), diffs)
		rep.Count("fault:" + c.Fault + "/" + c.Op)
	}
	// a process that starts with one processor: the massive mode still returns
	if massiveHangs < 2 && !rep.Full() {
		p := startC12Worker("GOMAXPROCS=1")
		for _, e := range []string{"text", "json", "walk", "dry", "mkdir", "verify"} {
			for di, d := range []string{"", "- a\n  - b\n- c\n", "- a\n  x\n"} {
				j := c12job{e, hxs(d)}
				ans, crash := p.ask(j)
				var diffs []Diff
				if ans == "" {
					diffs = []Diff{{What: "GOMAXPROCS=1: massive-mode entry point " + e + " crashed the process", Real: crash, Model: "returns"}}
					p.close()
					p = startC12Worker("GOMAXPROCS=1")
				} else if ans == "hang" {
					diffs = []Diff{{What: "GOMAXPROCS=1: massive-mode entry point " + e + " did not return within 15 s", Real: "hang", Model: "returns"}}
					p.close()
					p = startC12Worker("GOMAXPROCS=1")
				}
				rep.Record(map[string]string{"kind": "one-processor", "entry": e, "doc": d}, "oneproc:"+e+fmtInt(di), true, diffs)
				rep.Count("one-processor")
				if len(diffs) > 0 && rep.Full() {
					break
				}
			}
		}
		p.close()
	}
	knownHits.Lock()
	for k, v := range knownHits.m {
		rep.Known[k] += v
	}
	knownHits.Unlock()
	return rep
}

// ---------------------------------------------------------------- a reused programmatic tree with the massive option (C10)

type rootReuseCase struct {
	Kind  string   `json:"kind"`
	Tree  string   `json:"tree"`
	First string   `json:"earlier_operations"`
	Fmt   Fmt4     `json:"fmt"`
	Exts  []string `json:"exts,omitempty"`
	Sched int64    `json:"sched_seed"`
	Procs int      `json:"gomaxprocs"`
}

func init() {
	replayers["massive-root-reuse"] = func(m *Model, raw json.RawMessage) []Diff {
		var c rootReuseCase
		json.Unmarshal(raw, &c)
		return runRootReuseMassive(m, c)
	}
}

func runRootReuseMassive(m *Model, c rootReuseCase) []Diff {
	massiveMu.Lock()
	defer massiveMu.Unlock()
	if c.Procs > 0 {
		defer runtime.GOMAXPROCS(runtime.GOMAXPROCS(c.Procs))
	}
	t := parseTreeEnc(c.Tree)
	root := buildRoot(t)
	jail := newJail()
	defer os.RemoveAll(jail)
	target := filepath.Join(jail, "t")
	for _, op := range strings.Split(c.First, ",") {
		earlierUse(root, op, target)
	}
	done := installSched(c.Sched)
	defer done()
	fo := fmtOpts(c.Fmt)
	massive := func(o []gtree.Option) []gtree.Option {
		return append(append([]gtree.Option{}, o...), gtree.WithMassive(context.Background()))
	}
	var d []Diff
	// each operation twice in each mode, massive first: a second massive call must not build on the first one's branches
	text := func(o []gtree.Option) string {
		var b lockedBuf
		err := gtree.OutputFromRoot(&b, root, o...)
		return "w=" + hx(b.finish()) + " e=" + classify(err)
	}
	walk := func(o []gtree.Option) string {
		var mu sync.Mutex
		var vs []string
		var kept []*gtree.WalkerNode
		err := gtree.WalkFromRoot(root, func(wn *gtree.WalkerNode) error {
			mu.Lock()
			vs = append(vs, showVisit(wn))
			kept = append(kept, wn)
			mu.Unlock()
			return nil
		}, o...)
		mu.Lock()
		defer mu.Unlock()
		// what the callback kept is, after the walk, what it was handed
		for i, wn := range kept {
			if late := showVisit(wn); late != vs[i] {
				return "v=" + showVisits(vs) + " e=" + classify(err) + " but the " + fmtInt(i) + "-th *WalkerNode the callback kept reads " + late + " after the walk returned"
			}
		}
		return "v=" + showVisits(vs) + " e=" + classify(err)
	}
	dry := func(o []gtree.Option) string {
		colorOutMu.Lock()
		defer colorOutMu.Unlock()
		old := colorOutput()
		b := &lockedBuf{}
		setColorOutput(b)
		err := gtree.MkdirFromRoot(root, append(append([]gtree.Option{}, o...), gtree.WithDryRun(), gtree.WithTargetDir(target), gtree.WithFileExtensions(c.Exts))...)
		setColorOutput(old)
		return "w=" + hx(b.finish()) + " e=" + classify(err)
	}
	wantText := m.Ask("rootout " + c.Fmt.enc() + " n 0 " + addMirror(t).Enc())
	wantWalk := m.Ask("rootwalk " + c.Fmt.enc() + " n " + addMirror(t).Enc())
	after := "after " + c.First
	for round := 0; round < 2; round++ {
		mt := text(massive(fo))
		d = append(d, cmp("OutputFromRoot with the massive option, "+after+": vs the model", mt, wantText)...)
		d = append(d, cmp("OutputFromRoot with the massive option, "+after+": vs the simple mode", mt, text(fo))...)
		mw := walk(massive(fo))
		d = append(d, cmp("WalkFromRoot with the massive option, "+after+": vs the model", mw, wantWalk)...)
		d = append(d, cmp("WalkFromRoot with the massive option, "+after+": vs the simple mode", mw, walk(fo))...)
		md := dry(massive(nil))
		d = append(d, cmp("dry-run MkdirFromRoot with the massive option, "+after+": vs the simple mode", md, dry(nil))...)
		after += ", and a round of massive and simple calls"
		if len(d) > 0 {
			break
		}
	}
	if len(snapshot(jail)) != 0 {
		d = append(d, Diff{What: "a dry run created something", Real: strings.Join(snapshot(jail), ","), Model: "nothing"})
	}
	return d
}
