package main

import (
	"bytes"
	"context"
	"encoding/json"
	"fmt"
	"math/rand"
	"strings"

	"github.com/ddddddO/gtree"
)

// C01: text output obeys the tree-drawing rule.
// Correspondence: real OutputFromMarkdown (iterator path and batch path) vs the Lean model's
// outputIter/outputBatch, which is proved equal to the specification renderer (Props/C01.lean).

func init() { props["c01"] = runC01 }

func runC01(ctx *Ctx) *Report {
	rep := NewReport("C01")
	var cases []Case
	n := 5
	if ctx.Thorough {
		n = 6
	}
	alphabet := []string{"a", "b", "c"}
	if ctx.Thorough {
		alphabet = []string{"a", "b"}
		n = 7
	}
	forests := forestsUpTo(n, alphabet)
	spellings := coveringSpellings()
	formats := allFormats()
	i := 0
	for _, f := range forests {
		// every forest: default format + plain spelling, and one rotating (format, spelling) pair
		doc := spell(f, plainSpelling)
		c := newCase("out")
		c.Mode = "iter-text"
		c.Doc = hx(doc)
		c.DocText = docText(doc)
		c.Tree = encForest(f)
		cases = append(cases, c)
		sp := spellings[i%len(spellings)]
		fm := formats[i%len(formats)]
		i++
		doc2 := spell(f, sp)
		c2 := newCase("out")
		c2.Mode = "iter-text"
		if i%7 == 0 {
			c2.Mode = "batch-text"
		}
		c2.Fmt = fm
		c2.Doc = hx(doc2)
		c2.DocText = docText(doc2)
		c2.Tree = encForest(f)
		cases = append(cases, c2)
	}
	// names that differ only by case are different names: every forest with ≤ 4 nodes over {a, A}
	for _, f := range forestsUpTo(4, []string{"a", "A"}) {
		doc := spell(f, plainSpelling)
		c := newCase("out")
		c.Mode = "iter-text"
		c.Doc, c.DocText, c.Tree = hx(doc), docText(doc), encForest(f)
		cases = append(cases, c)
	}
	// a wide parent whose k-th child's name comes again later (equally named siblings are one node)
	for _, w := range []int{15, 16, 17, 18, 19, 31, 32, 33, 34, 63, 64, 65, 66, 129} {
		for _, again := range []int{0, 15, 16, 17, w / 2, w - 2, w - 1} {
			if again < 0 || again >= w {
				continue
			}
			var sb strings.Builder
			sb.WriteString("- p\n")
			for j := 0; j < w; j++ {
				sb.WriteString("  - c" + fmtInt(j) + "\n")
			}
			sb.WriteString("  - c" + fmtInt(again) + "\n    - under\n  - tail\n")
			c := newCase("out")
			c.Mode, c.Doc, c.DocText, c.Note = "iter-text", hxs(sb.String()), "<"+fmtInt(w)+" children, child "+fmtInt(again)+" again>", "wide-repeat"
			cases = append(cases, c)
		}
	}
	// list roots before the first heading, the same rows on both sides of it
	for _, d := range []string{"- a\n  - x\n# h\n- a\n  - x\n- b\n", "- a\n- b\n# h\n- a\n- b\n  - c\n# k\n- a\n", "* r\n\t* s\n# h\n* r\n\t* s\n\t\t* t\n", "- a\n  - x\n## h\n- a\n  - x\n#k\n- a\n  - x\n"} {
		for _, mode := range []string{"iter-text", "batch-text"} {
			c := newCase("out")
			c.Mode, c.Doc, c.DocText, c.Note = mode, hxs(d), d, "list-roots-then-headings"
			cases = append(cases, c)
		}
	}
	// forests that are large in one dimension: depth, fan-out, number of roots, name length, total size
	for bi, name := range bigShapeOrder {
		f := bigShapes()[name]
		for si, sp := range []Spelling{plainSpelling, coveringSpellings()[5], coveringSpellings()[10]} {
			if !representable(f, sp) {
				continue
			}
			if name == "huge" && si > 0 {
				continue
			}
			doc := spell(f, sp)
			c := newCase("out")
			c.Mode, c.Fmt = []string{"iter-text", "batch-text"}[(bi+si)%2], formats[(bi+si)%len(formats)]
			c.Doc, c.DocText, c.Tree, c.Note = hx(doc), "<"+name+">", "", "big:"+name
			cases = append(cases, c)
			if len(f) == 1 {
				c.Mode, c.Massive = "iter-text", true
				cases = append(cases, c)
			}
		}
	}
	rep.Exhaustive = true
	rep.Notes = append(rep.Notes, "exhaustive: every ordered forest with ≤ "+itoa(n)+" nodes over "+itoa(len(alphabet))+" names (plain spelling, default format) + one rotating (spelling, format) pair each")
	// random large forests with hostile names in random spellings/formats
	nr := 1500
	if ctx.Thorough {
		nr = 60000
	}
	for k := 0; k < nr; k++ {
		size := 1 + ctx.Rng.Intn(40)
		if k%50 == 0 {
			size = 100 + ctx.Rng.Intn(200)
		}
		f := randForest(ctx.Rng, size, []string{"plain", "bullets", "blanks", "unicode", "quotes", "path"}, 4, rep.Dist)
		sp := randSpelling(ctx.Rng)
		if !representable(f, sp) {
			sp.Sharp = false
		}
		if !representable(f, sp) {
			continue
		}
		doc := spell(f, sp)
		c := newCase("out")
		c.Mode = "iter-text"
		if k%5 == 0 {
			c.Mode = "batch-text"
		}
		c.Fmt = formats[ctx.Rng.Intn(len(formats))]
		c.Doc = hx(doc)
		c.DocText = docText(doc)
		c.Tree = encForest(f)
		cases = append(cases, c)
		if len(f) == 1 && k%3 == 0 {
			// the same drawing with the massive option: for one root the output is determined
			c.Mode, c.Massive = "iter-text", true
			cases = append(cases, c)
		}
	}
	runCases(rep, cases, ctx.Workers, func(c Case) bool {
		return c.Tree == "" || c.Note != "" || nonTrivialEnc(c.Tree)
	})
	// several roots whose drawings are larger than any buffer on the way (4 KiB, 8 KiB, 32 KiB, 64 KiB), with the massive
	// option: the order of the roots is free, but every root's lines stay together, in pre-order, as the simple mode
	// draws them
	var mb []mblockCase
	nb := 6
	if ctx.Thorough {
		nb = 40
	}
	for k := 0; k < nb; k++ {
		// few very large roots, and many large roots (more than there are workers: several are printed at the same time)
		mb = append(mb, mblockCase{Kind: "c01-massive-blocks", Roots: []int{2, 12, 3, 24, 5, 40}[k%6], Lines: []int{700, 200, 1500, 150, 400, 120}[k%6] + ctx.Rng.Intn(40), Seed: int64(ctx.Rng.Int31()), Custom: k%2 == 1})
	}
	for _, c := range mb {
		rep.Record(c, fmt.Sprintf("mblocks:%d:%d:%v", c.Roots, c.Lines, c.Custom), true, runMassiveBlocks(c))
		rep.Count("massive text output of " + itoa(c.Roots) + " large roots")
	}
	return rep
}

type mblockCase struct {
	Kind   string `json:"kind"`
	Roots  int    `json:"roots"`
	Lines  int    `json:"lines_per_root"`
	Seed   int64  `json:"seed"`
	Custom bool   `json:"custom_branch_strings,omitempty"`
}

func init() {
	replayers["c01-massive-blocks"] = func(m *Model, raw json.RawMessage) []Diff {
		var c mblockCase
		json.Unmarshal(raw, &c)
		return runMassiveBlocks(c)
	}
}

// runMassiveBlocks: the massive text output of a forest of large roots is a concatenation, in some order, of the
// blocks the simple mode draws for the roots one by one.
func runMassiveBlocks(c mblockCase) []Diff {
	rng := rand.New(rand.NewSource(c.Seed))
	var forest []*Tree
	for r := 0; r < c.Roots; r++ {
		root := &Tree{Name: fmt.Sprintf("root-%d-%d", r, rng.Intn(1000))}
		open := []*Tree{root}
		for i := 1; i < c.Lines; i++ {
			par := open[rng.Intn(len(open))]
			n := &Tree{Name: fmt.Sprintf("n%d-%s", i, strings.Repeat("x", 10+rng.Intn(40)))}
			par.Kids = append(par.Kids, n)
			if len(open) < 12 {
				open = append(open, n)
			} else {
				open[rng.Intn(len(open))] = n
			}
		}
		forest = append(forest, root)
	}
	var fo []gtree.Option
	if c.Custom {
		fo = fmtOpts(fmtCustom)
	}
	var blocks []string
	for _, t := range forest {
		var b bytes.Buffer
		if err := gtree.OutputFromMarkdown(&b, bytes.NewReader(spell([]*Tree{t}, plainSpelling)), fo...); err != nil {
			return []Diff{{What: "simple text output of one large root failed", Real: classify(err), Model: "nil"}}
		}
		blocks = append(blocks, b.String())
	}
	var out lockedBuf
	err := gtree.OutputFromMarkdown(&out, bytes.NewReader(spell(forest, plainSpelling)), append(append([]gtree.Option{}, fo...), gtree.WithMassive(context.Background()))...)
	if err != nil {
		return []Diff{{What: "massive text output of large roots failed", Real: classify(err), Model: "nil"}}
	}
	rest := string(out.finish())
	used := make([]bool, len(blocks))
	for len(rest) > 0 {
		found := false
		for i, b := range blocks {
			if !used[i] && strings.HasPrefix(rest, b) {
				used[i], found, rest = true, true, rest[len(b):]
				break
			}
		}
		if !found {
			at := len(string(out.finish())) - len(rest)
			return []Diff{{What: "massive text output of several large roots is not a sequence of the roots' blocks (a root's lines are torn or interleaved)", Real: fmt.Sprintf("no root's block starts at byte %d: %q…", at, rest[:min(len(rest), 120)]), Model: "every root's lines together, in pre-order"}}
		}
	}
	for i := range used {
		if !used[i] {
			return []Diff{{What: "massive text output of several large roots lacks a root", Real: fmt.Sprintf("root %d missing", i), Model: "one block per root"}}
		}
	}
	return nil
}

func itoa(n int) string {
	return fmtInt(n)
}
