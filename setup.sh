#!/bin/sh
# Build the framework from files on disk only (offline): facts extractor output, Lean model + proofs + driver.
set -e
cd "$(dirname "$0")"
export GOFLAGS=-mod=mod GOPROXY=off NO_COLOR=1
unset GOTOOLCHAIN || true
(cd extract && go run . -repo /repo -out ../lean/Gtree/Generated/Facts.lean)
(cd translate && go run . -repo /repo -out ../lean/Gtree/Generated/Source.lean -heapout ../lean/Gtree/Generated/SourceHeap.lean)
(cd lean && lake build && lake build Gtree.Props.All)
cp /repo/go.sum harness/go.sum
(cd harness && go build -tags verif -o /dev/null .)
echo setup ok
